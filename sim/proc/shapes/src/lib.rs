//! proc-sim corpus "shapes" (C14): a small bridge in which every construct a backend may keep shared state for
//! (option helper types, slice helper types, result types, write-out, callbacks, cross-module and namespaced
//! references) is used by exactly ONE type, and several types are reached by their only user through one construct
//! only (e.g. `Mode` only inside `Option<Mode>` in input position). An unreferenced type inserted by the harness that
//! uses the same constructs is then the second user, generated before or after the first one.
//! Only diplomat-tool reads this file; it is never compiled.

pub mod shapes_a {
    #[diplomat::bridge]
    pub mod ffi {
        use diplomat_runtime::{DiplomatStr, DiplomatWrite};

        /// Documentation links into a crate family (`vsim`, `vsim_core`, `vsim_core_util`): the docs-URL configurations of
        /// proc-sim give base URLs for some members of the family and not for others.
        #[diplomat::rust_link(vsim_core_util::Mode, Enum)]
        pub enum Mode {
            Fast,
            Slow,
        }

        #[diplomat::rust_link(vsim_core::Settings, Struct)]
        pub struct Settings {
            pub level: u8,
            pub scale: f32,
        }

        #[diplomat::rust_link(vsim::Verdict, Enum)]
        #[diplomat::attr(auto, error)]
        pub enum Verdict {
            Yes = 1,
            No = 4,
        }

        impl Mode {
            #[diplomat::rust_link(vsim_core_util::Mode::parse, FnInEnum)]
            #[diplomat::rust_link(othercrate::parse_mode, Fn, compact)]
            pub fn parse(code: u8) -> Mode {
                if code == 0 {
                    Mode::Fast
                } else {
                    Mode::Slow
                }
            }
            #[diplomat::rust_link(vsim_core_util_extra::fastest, Fn)]
            pub fn fastest() -> Mode {
                Mode::Fast
            }
        }

        #[diplomat::opaque]
        pub struct Widget(u8);

        impl Widget {
            #[diplomat::demo(default_constructor)]
            pub fn new() -> Box<Widget> {
                Box::new(Widget(0))
            }
            #[diplomat::attr(not(supports = option), disable)]
            pub fn configure(&mut self, mode: Option<Mode>) {
                let _ = mode;
            }
            #[diplomat::attr(not(supports = option), disable)]
            pub fn apply(&mut self, s: Option<Settings>) {
                let _ = s;
            }
            #[diplomat::attr(not(supports = option), disable)]
            pub fn level(&self) -> Option<u8> {
                Some(self.0)
            }
            pub fn feed(&mut self, data: &[u16]) -> usize {
                data.len()
            }
            pub fn name(&self, w: &mut DiplomatWrite) {
                let _ = w;
            }
        }

        #[diplomat::opaque]
        pub struct Gauge(i32);

        impl Gauge {
            pub fn read(&self) -> Result<i32, ()> {
                Ok(self.0)
            }
            pub fn judge(&self) -> Result<u8, Verdict> {
                Err(Verdict::No)
            }
            pub fn samples(&self, out: &mut [f64]) {
                let _ = out;
            }
            pub fn label<'a>(&'a self) -> &'a DiplomatStr {
                b"gauge"
            }
            pub fn widget<'a>(&'a self, w: Option<&'a Widget>) -> Option<&'a Widget> {
                w
            }
        }
    }
}

pub mod shapes_b {
    #[diplomat::bridge]
    #[diplomat::attr(auto, namespace = "nsb")]
    pub mod ffi {
        pub enum Color {
            Red = 1,
            Green = 5,
        }

        #[diplomat::attr(auto, error)]
        pub enum Shade {
            Light,
            Dark,
        }

        #[diplomat::out]
        pub struct Report {
            pub total: u32,
            pub color: Color,
        }

        #[diplomat::opaque]
        pub struct Painter(u8);

        impl Painter {
            pub fn paint(&self, c: Color) -> Report {
                Report { total: 1, color: c }
            }
            #[diplomat::attr(not(supports = callbacks), disable)]
            pub fn visit(f: impl Fn(u32) -> u32, x: u32) -> u32 {
                f(x)
            }
            pub fn bytes(&self, xs: &[u8]) -> u8 {
                xs.len() as u8
            }
        }

        pub trait Listener {
            fn on_event(&self, x: u32) -> u32;
        }

        pub trait Observer {
            fn observe(&self, a: i16, b: i16);
        }

        #[diplomat::opaque]
        #[diplomat::attr(not(supports = "traits"), disable)]
        pub struct Hub(u8);

        impl Hub {
            pub fn listen(l: impl Listener, x: u32) -> u32 {
                l.on_event(x)
            }
            pub fn watch(o: impl Observer) {
                o.observe(1, 2);
            }
        }

        #[diplomat::opaque]
        pub struct Brush(u8);

        impl Brush {
            #[diplomat::attr(not(supports = option), disable)]
            pub fn shade(&mut self, s: Option<Shade>) {
                let _ = s;
            }
            pub fn owner<'a>(&'a self, p: &'a Painter) -> &'a Painter {
                p
            }
            pub fn try_paint(&self, p: &Painter) -> Result<Box<Brush>, Shade> {
                let _ = p;
                Err(Shade::Dark)
            }
        }
    }
}

pub mod shapes_c {
    #[diplomat::bridge]
    pub mod ffi {
        use crate::shapes_a::ffi::Mode;
        use crate::shapes_b::ffi::Painter;

        pub struct Point {
            pub x: i16,
            pub y: i16,
        }

        pub struct Line {
            pub from: Point,
            pub to: Point,
        }

        #[diplomat::opaque]
        pub struct Router(u8);

        impl Router {
            pub fn route(&self, m: Mode) -> Mode {
                m
            }
            pub fn span(&self, l: Line) -> i16 {
                l.to.x - l.from.x
            }
            pub fn with_painter(&self, p: &Painter) -> u8 {
                let _ = p;
                self.0
            }
        }
    }
}
