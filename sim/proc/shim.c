// LD_PRELOAD shim of proc-sim (DESIGN.md §6.1): every ambient input the diplomat-tool process can
// observe through libc is answered from the trace (environment variables set by the launcher).
//
//   VSIM_ENTROPY  seed of the byte stream returned by getrandom() (=> RandomState keys => HashMap order)
//   VSIM_CLOCK    first instant returned by clock_gettime/gettimeofday/time (seconds); each call jumps
//   VSIM_PID      value of getpid()
//   VSIM_HOST     value of gethostname()
//   VSIM_HEAP     seed of a malloc/free pattern executed before main (shifts every later heap address)
//   VSIM_REPORT   file receiving the per-seam call counters at exit (reach is measured, not assumed)
#define _GNU_SOURCE
#include <stdint.h>
#include <stdio.h>
#include <stdlib.h>
#include <string.h>
#include <sys/time.h>
#include <sys/types.h>
#include <time.h>
#include <unistd.h>

static uint32_t s[4];
static int seeded = 0;
static unsigned long n_getrandom = 0, n_clock = 0, n_pid = 0, n_host = 0, n_heap = 0;
static unsigned long long clock_base = 0, clock_calls = 0;

static uint32_t splitmix32(uint32_t *st) {
  *st += 0x9e3779b9u;
  uint32_t z = *st;
  z ^= z >> 16; z *= 0x21f0aaadu; z ^= z >> 15; z *= 0x735a2d97u; z ^= z >> 15;
  return z;
}
static uint32_t rotl(uint32_t x, int k) { return (x << k) | (x >> (32 - k)); }
static void seed_rng(uint32_t seed) {
  uint32_t st = seed;
  for (int i = 0; i < 4; i++) s[i] = splitmix32(&st);
  if (!(s[0] | s[1] | s[2] | s[3])) s[0] = 1;
}
static uint32_t next_u32(void) {
  uint32_t result = rotl(s[1] * 5, 7) * 9, t = s[1] << 9;
  s[2] ^= s[0]; s[3] ^= s[1]; s[1] ^= s[2]; s[0] ^= s[3]; s[2] ^= t; s[3] = rotl(s[3], 11);
  return result;
}
static unsigned long long env_u64(const char *name, unsigned long long dflt) {
  const char *v = getenv(name);
  return v && *v ? strtoull(v, NULL, 10) : dflt;
}
static void ensure_seeded(void) {
  if (!seeded) { seed_rng((uint32_t)env_u64("VSIM_ENTROPY", 1)); seeded = 1; }
}

ssize_t getrandom(void *buf, size_t len, unsigned int flags) {
  (void)flags;
  ensure_seeded();
  n_getrandom++;
  unsigned char *p = buf;
  for (size_t i = 0; i < len; i += 4) {
    uint32_t w = next_u32();
    for (size_t j = 0; j < 4 && i + j < len; j++) p[i + j] = (unsigned char)(w >> (8 * j));
  }
  return (ssize_t)len;
}

static unsigned long long now_s(void) {
  if (!clock_base) clock_base = env_u64("VSIM_CLOCK", 1700000000ull);
  // every observation jumps forward by a trace-dependent amount (including across a day boundary)
  unsigned long long t = clock_base + clock_calls * (1 + clock_base % 90000);
  clock_calls++;
  return t;
}
int clock_gettime(clockid_t clk, struct timespec *ts) {
  (void)clk; n_clock++;
  if (ts) { ts->tv_sec = (time_t)now_s(); ts->tv_nsec = (long)((clock_base * 7919u) % 1000000000ull); }
  return 0;
}
int gettimeofday(struct timeval *tv, void *tz) {
  (void)tz; n_clock++;
  if (tv) { tv->tv_sec = (time_t)now_s(); tv->tv_usec = (long)((clock_base * 7919u) % 1000000ull); }
  return 0;
}
time_t time(time_t *out) {
  n_clock++;
  time_t t = (time_t)now_s();
  if (out) *out = t;
  return t;
}
pid_t getpid(void) { n_pid++; return (pid_t)env_u64("VSIM_PID", 4242); }
int gethostname(char *name, size_t len) {
  n_host++;
  const char *h = getenv("VSIM_HOST");
  if (!h) h = "vsim-host";
  if (len == 0) return -1;
  strncpy(name, h, len - 1); name[len - 1] = 0;
  return 0;
}

static void *volatile sink;
__attribute__((constructor)) static void perturb_heap(void) {
  unsigned long long h = env_u64("VSIM_HEAP", 0);
  if (!h) return;
  uint32_t st = (uint32_t)h;
  unsigned n = 1 + splitmix32(&st) % 64;
  for (unsigned i = 0; i < n; i++) {
    size_t sz = 8 + splitmix32(&st) % 4000;
    void *p = malloc(sz);
    sink = p;
    if (splitmix32(&st) % 3 == 0) free(p);
    n_heap++;
  }
}
__attribute__((destructor)) static void report(void) {
  const char *f = getenv("VSIM_REPORT");
  if (!f || !*f) return;
  FILE *o = fopen(f, "w");
  if (!o) return;
  fprintf(o, "getrandom %lu\nclock %lu\ngetpid %lu\ngethostname %lu\nheap_allocs %lu\n", n_getrandom, n_clock, n_pid, n_host, n_heap);
  fclose(o);
}
