// own_driver — L2-C++ layer of own-sim (DESIGN.md §3.4) and the C++ part of write-sim (§5, I9).
//
// A trace interpreter over the C++ wrappers that `diplomat-tool cpp` generates for sim/rs/vbridge,
// linked against the vbridge staticlib built with the real proc macro, compiled with
// -fsanitize=address,undefined. The driver is the foreign caller: it holds unique_ptr wrappers,
// diplomat::result values and std::function callbacks capturing ledger-tracked tokens, follows a
// seeded history of API calls, and after every call compares the ledger (exported by vbridge) with
// its own bookkeeping of what it still owns.
//
//   own_driver run    --prop C03|C12 --seed S --from A --to B
//   own_driver gen    --prop P --seed S --run I
//   own_driver replay FILE
//
// exit 0 ok / 1 violation (VIOLATION line + REPLAY block on stdout) / 2 harness error;
// sanitizer reports exit with 77 (ASan/UBSan) or 78 (LSan) and are bisected by the orchestrator.

#include <algorithm>
#include <cstdint>
#include <cstdio>
#include <cstdlib>
#include <cstring>
#include <unistd.h>
#include <fstream>
#include <functional>
#include <iostream>
#include <map>
#include <memory>
#include <optional>
#include <set>
#include <sstream>
#include <string>
#include <vector>

#include "ErrOut.hpp"
#include "ErrPod.hpp"
#include "OutOwned.hpp"
#include "OutNested.hpp"
#include "ErrTok.hpp"
#include "OutPair.hpp"
#include "Pod.hpp"
#include "Tok.hpp"
#include "TokIter.hpp"
#include "TokList.hpp"
#include "View.hpp"

extern "C" {
void vb_ledger_reset();
size_t vb_ledger_live_count();
bool vb_ledger_is_live(uint32_t id);
size_t vb_ledger_bad_count();
uint32_t vb_ledger_next_id();
uint64_t vb_ledger_drops();
uint32_t vb_foreign_token_new();
bool vb_foreign_token_drop(uint32_t id);
}

// ---- PRNG: splitmix32-seeded xoshiro128**, same as simcore::Rng -------------------------------
static uint32_t splitmix32(uint32_t& st) {
  st += 0x9e3779b9u;
  uint32_t z = st;
  z ^= z >> 16; z *= 0x21f0aaadu; z ^= z >> 15; z *= 0x735a2d97u; z ^= z >> 15;
  return z;
}
static uint32_t rotl(uint32_t x, int k) { return (x << k) | (x >> (32 - k)); }
static uint32_t fnv1a32(const std::string& s) { uint32_t h = 0x811c9dc5u; for (unsigned char c : s) { h ^= c; h *= 0x01000193u; } return h; }
static uint64_t fnv1a64(const std::string& s) { uint64_t h = 0xcbf29ce484222325ull; for (unsigned char c : s) { h ^= c; h *= 0x100000001b3ull; } return h; }
struct Rng {
  uint32_t s[4];
  explicit Rng(uint32_t seed) { uint32_t st = seed; for (auto& w : s) w = splitmix32(st); if (!(s[0] | s[1] | s[2] | s[3])) s[0] = 1; }
  static Rng derive(uint64_t seed, const std::string& engine, uint64_t run) {
    uint32_t lo = (uint32_t)seed, hi = (uint32_t)(seed >> 32), rlo = (uint32_t)run, rhi = (uint32_t)(run >> 32);
    uint32_t st = lo ^ fnv1a32(engine); uint32_t a = splitmix32(st);
    uint32_t st2 = a ^ rotl(hi, 13) ^ rlo; uint32_t b = splitmix32(st2);
    uint32_t st3 = b ^ rotl(rhi, 7); uint32_t c = splitmix32(st3);
    return Rng(c);
  }
  uint32_t next() {
    uint32_t result = rotl(s[1] * 5, 7) * 9; uint32_t t = s[1] << 9;
    s[2] ^= s[0]; s[3] ^= s[1]; s[1] ^= s[2]; s[0] ^= s[3]; s[2] ^= t; s[3] = rotl(s[3], 11);
    return result;
  }
  uint32_t below(uint32_t n) { return next() % n; }
  bool chance(uint32_t num, uint32_t den) { return below(den) < num; }
  template <class T> T pick(std::initializer_list<T> xs) { return *(xs.begin() + below((uint32_t)xs.size())); }
};

// ---- foreign-side tracked token captured by callbacks -------------------------------------------
struct Tracked {
  uint32_t id;
  Tracked() : id(vb_foreign_token_new()) {}
  ~Tracked() { vb_foreign_token_drop(id); }
  Tracked(const Tracked&) = delete;
};
using Fn = std::function<uint32_t(uint32_t)>;
static Fn make_fn(uint32_t& id_out) {
  auto t = std::make_shared<Tracked>();
  id_out = t->id;
  return [t](uint32_t x) { return x + t->id; };
}

// ---- trace ----------------------------------------------------------------------------------------
enum K { NEW, TRY_NEW, TRY_NEW_DISCARD, MAYBE_NEW, TRY_NEW_POD, ID, BUMP, PEER, MAYBE_PEER, VIEW, TRY_VIEW, VIEW_OWNER, PAIR, TRY_PAIR,
         TAKE_STRS, SUM, FILL, CALL, CALL_TWICE, IGNORE, TRY_CALL, GREET, HOLD, CALL_HELD, UNHOLD, OPT_IN, DOPT_IN, OPT_U32, RES_UNIT, RES_POD,
         DESCRIBE, DESCRIBE_N, TRY_DESCRIBE, DESCRIBE_INTO, DESTROY, MOVE, THROW_SCOPE, SCOPE,
         LIST_NEW, ITER_BEGIN, ITER_COPY, ITER_DROP, ITER_ADVANCE, ITER_RANGE, HOLD_MUT, CALL_HELD_MUT, CALL_MUT, RESULT_ASSIGN, OWNED_PAIR, TRY_NEW_ERR_OUT, MAKE_NESTED, NKINDS };
static const char* KNAME[] = {"new", "try_new", "try_new_discard", "maybe_new", "try_new_pod_err", "id", "bump", "peer", "maybe_peer", "view", "try_view", "view_owner", "pair", "try_pair",
                              "take_strs", "sum", "fill", "call", "call_twice", "ignore", "try_call", "greet", "hold", "call_held", "unhold", "opt_in", "dopt_in", "opt_u32", "res_unit", "res_pod",
                              "describe", "describe_n", "try_describe", "describe_into", "destroy", "move", "throw_scope", "scope",
                              "list_new", "iter_begin", "iter_copy", "iter_drop", "iter_advance", "iter_range", "hold_mut", "call_held_mut", "call_mut", "result_assign", "owned_pair", "try_new_err_out", "make_nested"};
struct Op { int k = 0; int h = 0, g = 0, d = 0; int n = 0; bool f = true; };
struct Trace { uint64_t seed = 0, run = 0; std::string prop = "C03"; std::vector<Op> ops; };
static const int NH = 6;

static std::string op_text(const Op& o) {
  std::ostringstream s;
  s << KNAME[o.k] << " " << o.h << " " << o.g << " " << o.d << " " << o.n << " " << (o.f ? 1 : 0);
  return s.str();
}
static std::string trace_text(const Trace& t) {
  std::ostringstream s;
  s << "# cpp-trace v1 (" << t.prop << ")\nseed " << t.seed << " run " << t.run << "\n";
  for (auto& o : t.ops) s << "op " << op_text(o) << "\n";
  return s.str();
}
static bool parse_trace(const std::string& text, Trace& t) {
  std::istringstream in(text);
  std::string line;
  while (std::getline(in, line)) {
    if (line.rfind("# cpp-trace v1 (", 0) == 0) { t.prop = line.substr(16, 3); continue; }
    if (line.empty() || line[0] == '#') continue;
    std::istringstream ls(line);
    std::string w; ls >> w;
    if (w == "seed") { std::string r; ls >> t.seed >> r >> t.run; }
    else if (w == "op") {
      std::string name; Op o; int f = 1; ls >> name >> o.h >> o.g >> o.d >> o.n >> f; o.f = f != 0; o.k = -1;
      for (int i = 0; i < NKINDS; i++) if (name == KNAME[i]) o.k = i;
      if (o.k < 0 || o.h < 0 || o.h >= NH || o.g < 0 || o.g >= NH || o.d < 0 || o.d >= NH) return false;
      t.ops.push_back(o);
    } else return false;
  }
  return true;
}

static Trace gen_trace(uint64_t seed, uint64_t run, const std::string& prop) {
  Rng rng = Rng::derive(seed, prop == "C12" ? "write-cpp" : "own-cpp", run);
  Trace t; t.seed = seed; t.run = run; t.prop = prop;
  uint32_t max_ops = rng.pick<uint32_t>({2, 3, 4, 6, 8, 12, 20, 30});
  int nh = 1 + rng.below(NH);
  uint32_t err_rate = rng.pick<uint32_t>({0, 4, 8, 12});
  uint32_t destroy_rate = rng.pick<uint32_t>({1, 2, 4});
  std::vector<uint32_t> fam(8);
  for (auto& w : fam) w = rng.chance(2, 3) ? 1 + rng.below(4) : 0;
  if (prop == "C12") { fam.assign(8, 0); fam[6] = 6; }
  uint32_t total = 0; for (auto w : fam) total += w;
  if (!total) { fam[4] = 1; total = 1; }
  std::vector<int> kinds(NH, 0);  // generator's own heuristic view: 0 none 1 tok 2 err 3 view
  uint32_t nops = 1 + rng.below(max_ops);
  std::vector<int> ad(4, 0);  // heuristic view of which iterator-adapter slots are occupied
  for (uint32_t i = 0; i < nops; i++) {
    Op o; o.h = rng.below(nh); o.g = rng.below(nh); o.d = rng.below(nh); o.f = rng.below(16) >= err_rate;
    {
      std::vector<int> occ, fre;
      for (int a = 0; a < 4; a++) (ad[a] ? occ : fre).push_back(a);
      if (!occ.empty() && prop != "C12" && rng.chance(2, 5)) {
        o.g = occ[rng.below((uint32_t)occ.size())];
        switch (rng.below(4)) {
          case 0: case 1: o.k = ITER_ADVANCE; break;
          case 2: if (!fre.empty()) { o.k = ITER_COPY; o.d = fre[rng.below((uint32_t)fre.size())]; ad[o.d] = 1; } else o.k = ITER_ADVANCE; break;
          default: o.k = ITER_DROP; ad[o.g] = 0; break;
        }
        t.ops.push_back(o); continue;
      }
    }
    if (kinds[o.h] == 0) {
      switch (rng.below(7)) {
        case 0: case 1: case 2: o.k = NEW; kinds[o.h] = 1; break;
        case 3: o.k = TRY_NEW; kinds[o.h] = o.f ? 1 : 2; break;
        case 4: o.k = MAYBE_NEW; if (o.f) kinds[o.h] = 1; break;
        case 5: o.k = TRY_NEW_POD; if (o.f) kinds[o.h] = 1; break;
        default: switch (rng.below(6)) { case 5: o.k = MAKE_NESTED; o.n = rng.below(4); break; case 0: o.k = TRY_NEW_DISCARD; break; case 1: o.k = RESULT_ASSIGN; o.n = rng.below(8); break; case 2: o.k = OWNED_PAIR; o.n = rng.below(3); break; case 3: o.k = TRY_NEW_ERR_OUT; o.n = rng.below(2); if (o.n == 0) kinds[o.h] = o.f ? 1 : 2; break; default: o.k = LIST_NEW; o.n = rng.below(5); kinds[o.h] = 4; } break;
      }
      t.ops.push_back(o); continue;
    }
    if (rng.below(16) < destroy_rate) { o.k = DESTROY; kinds[o.h] = 0; t.ops.push_back(o); continue; }
    if (kinds[o.h] == 4) { o.k = rng.pick<int>({ITER_BEGIN, ITER_BEGIN, ITER_BEGIN, ITER_RANGE, ID}); o.g = rng.below(4); o.d = rng.below(4); if (o.k == ITER_BEGIN) ad[o.g] = 1; t.ops.push_back(o); continue; }
    if (kinds[o.h] != 1) { o.k = (kinds[o.h] == 3 && rng.chance(2, 3)) ? VIEW_OWNER : ID; t.ops.push_back(o); continue; }
    uint32_t pick = rng.below(total); int f = 0;
    while (pick >= fam[f]) { pick -= fam[f]; f++; }
    switch (f) {
      case 0: o.k = rng.chance(1, 2) ? ID : BUMP; break;
      case 1: o.k = rng.pick<int>({PEER, MAYBE_PEER, PAIR, MOVE}); if (o.k == MOVE && kinds[o.d] == 0) { kinds[o.d] = kinds[o.h]; kinds[o.h] = 0; } break;
      case 2: o.k = rng.pick<int>({VIEW, VIEW, TRY_VIEW, TRY_PAIR});
        if (kinds[o.d] == 0) { if (o.k == VIEW) kinds[o.d] = 3; else if (o.k == TRY_VIEW) kinds[o.d] = o.f ? 3 : 2; else if (!o.f) kinds[o.d] = 2; }
        break;
      case 3: o.k = rng.pick<int>({TAKE_STRS, SUM, FILL}); o.n = rng.pick<int>({0, 0, 1, 3, 17}); break;
      case 4: o.k = rng.pick<int>({CALL, CALL, CALL_TWICE, IGNORE, TRY_CALL, GREET, HOLD, CALL_HELD, UNHOLD, HOLD_MUT, CALL_HELD_MUT, CALL_MUT}); o.n = rng.below(5);
        if (o.k == TRY_CALL && kinds[o.d] == 0 && !o.f) kinds[o.d] = 2;
        break;
      case 5: o.k = rng.pick<int>({OPT_IN, DOPT_IN, OPT_U32, RES_UNIT, RES_POD}); break;
      case 6: o.k = rng.pick<int>({DESCRIBE, DESCRIBE_N, DESCRIBE_N, TRY_DESCRIBE, DESCRIBE_INTO}); o.n = rng.pick<int>({0, 1, 3, 7, 8, 9, 12, 40}); o.g = rng.below(6);
        if (o.k == TRY_DESCRIBE && kinds[o.d] == 0 && !o.f) kinds[o.d] = 2;
        break;
      default: o.k = rng.pick<int>({THROW_SCOPE, SCOPE, ITER_BEGIN, ITER_COPY, ITER_DROP, ITER_ADVANCE, ITER_RANGE, ITER_ADVANCE, ITER_COPY}); o.n = rng.below(4); o.g = rng.below(4); o.d = rng.below(4); break;
    }
    t.ops.push_back(o);
  }
  return t;
}

// ---- executor -------------------------------------------------------------------------------------
using Adapter = diplomat::next_to_iter_helper<TokIter>;
struct IterGroup { uint32_t iter_id; int refs; std::vector<uint32_t> items; size_t pos; int list; };
struct A {  // one C++ iterator adapter value held by the caller
  std::optional<Adapter> it;
  std::shared_ptr<IterGroup> grp;
  std::optional<uint32_t> curr;
};
static const int NA = 4;

struct H {
  std::unique_ptr<TokList> list;
  std::vector<uint32_t> items;
  int kind = 0;  // 0 none, 1 tok, 2 err, 3 view, 4 list
  std::unique_ptr<Tok> tok;
  std::unique_ptr<ErrTok> err;
  std::unique_ptr<View> view;
  uint32_t id = 0;
  int lender = -1;
  uint32_t held = 0;  // id of the token captured by the stored callback (0 = none)
  bool held_is_mut = false;
};

struct Violation { std::string oracle, detail; int step = 0; };
struct Outcome {
  std::string log;
  std::optional<Violation> violation;
  std::map<std::string, uint64_t> counters;
  std::vector<uint32_t> transitions;
  bool nontrivial = false;
};

struct ScopeThrow {};

static bool g_known_strs_layout = false;  // KNOWN_FINDINGS: span<const string_view> is reinterpret_cast to DiplomatStringView[]

struct Exec {
  H hs[NH];
  A ads[NA];
  bool c12;
  int step = 0;
  Outcome* out;
  std::optional<Violation> viol;

  void fail(const std::string& oracle, const std::string& detail) { if (!viol) viol = Violation{oracle, detail, step}; }
  bool has_dependents(int h) { for (auto& x : hs) if (x.kind && x.lender == h) return true; for (auto& a : ads) if (a.it && a.grp->list == h) return true; return false; }
  void put_tok(int h, std::unique_ptr<Tok> t) { hs[h] = H(); hs[h].kind = 1; hs[h].id = t->id(); hs[h].tok = std::move(t); }
  void put_err(int h, std::unique_ptr<ErrTok> e) { hs[h] = H(); hs[h].kind = 2; hs[h].id = e->id(); hs[h].err = std::move(e); }
  void put_view(int d, int lender, std::unique_ptr<View> v) { hs[d] = H(); hs[d].kind = 3; hs[d].id = v->id(); hs[d].view = std::move(v); hs[d].lender = lender; }
  void inc(const char* k) { out->counters[k]++; }

  void check_string(const char* what, const std::string& got, const std::string& want) {
    if (!c12) return;
    inc("cpp_strings_checked");
    if (got != want) fail("I9-cpp-string", std::string(what) + ": C++ wrapper returned \"" + got + "\" expected \"" + want + "\"");
  }
  static std::string want_n(int n) { std::string s; for (int i = 0; i < n; i++) { s.push_back((char)('a' + i % 26)); s += "\xc3\xa9"; } return s; }

  // returns false when the op was skipped
  bool run(const Op& o) {
    H& x = hs[o.h];
    switch (o.k) {
      case NEW: if (x.kind) return false; put_tok(o.h, Tok::new_()); break;
      case TRY_NEW: {
        if (x.kind) return false;
        auto r = Tok::try_new(o.f);
        if (r.is_ok() != o.f) { fail("O5-value-integrity", "try_new returned the wrong arm"); break; }
        if (o.f) put_tok(o.h, std::move(r).ok().value()); else { inc("fault_arm_err_fired"); put_err(o.h, std::move(r).err().value()); }
        break;
      }
      case TRY_NEW_DISCARD: {  // the result object is dropped without extracting its arm
        auto r = Tok::try_new(o.f);
        if (r.is_ok() != o.f) fail("O5-value-integrity", "try_new returned the wrong arm");
        inc("result_dropped_unextracted");
        break;
      }
      case OWNED_PAIR: {
        // a by-value out-struct owning objects: kept (n==0: both fields moved into handles), partly kept, or dropped whole
        if (x.kind || hs[o.d].kind || o.d == o.h) return false;
        OutOwned p = Tok::make_owned_pair(o.f);
        if (p.n != 77 || (p.b != nullptr) != o.f || !p.a) { fail("O5-value-integrity", "make_owned_pair fields wrong"); break; }
        if (o.n == 0) { put_tok(o.h, std::move(p.a)); if (p.b) put_tok(o.d, std::move(p.b)); }
        else if (o.n == 1) { put_tok(o.h, std::move(p.a)); }
        inc("out_struct_owning_objects_returned");
        break;
      }
      case MAKE_NESTED: {
        // an out-struct whose optional fields are themselves structs (one owning objects): Some then None in a row is
        // what leaves stale bytes behind an absent payload. n&1: keep the inner `a` in a handle; n&2: inner has both
        if (x.kind) return false;
        OutNested p = Tok::make_nested(o.f, (o.n & 2) != 0);
        if (p.tag != 55 || p.inner.has_value() != o.f || p.pod.has_value() == o.f) { fail("O5-value-integrity", "make_nested fields wrong"); break; }
        if (o.f) {
          if (p.inner->n != 78 || !p.inner->a || (p.inner->b != nullptr) != ((o.n & 2) != 0)) { fail("O5-value-integrity", "make_nested inner fields wrong"); break; }
          if (o.n & 1) put_tok(o.h, std::move(p.inner->a));
        } else if (p.pod->a != 9 || p.pod->b != 1) { fail("O5-value-integrity", "make_nested pod wrong"); break; }
        inc("out_struct_with_optional_struct_fields_returned");
        break;
      }
      case TRY_NEW_ERR_OUT: {
        // Result whose error type is an out-struct owning an object; n==1: the result is dropped unextracted
        if (x.kind) return false;
        auto r = Tok::try_new_err_out(o.f);
        if (r.is_ok() != o.f) { fail("O5-value-integrity", "try_new_err_out wrong arm"); break; }
        if (o.n == 0) {
          if (o.f) put_tok(o.h, std::move(r).ok().value());
          else { ErrOut e = std::move(r).err().value(); inc("fault_arm_err_fired"); if (e.code != -3 || !e.culprit) fail("O5-value-integrity", "ErrOut fields wrong"); else put_err(o.h, std::move(e.culprit)); }
        }
        break;
      }
      case RESULT_ASSIGN: {
        // result values are assigned over live result values (same arm and other arm), moved, and dropped
        bool a = o.n & 1, b = o.n & 2, c = o.n & 4;
        auto churn = [&](auto make) {
          auto r1 = make(a);
          auto r2 = make(b);
          r1 = std::move(r2);
          if (r1.is_ok() != b) fail("O5-value-integrity", "assigned result holds the wrong arm");
          r1 = make(c);
          if (r1.is_ok() != c) fail("O5-value-integrity", "assigned result holds the wrong arm");
        };
        // the shape of the result follows the handle the operation names: both arms own an object; only the Err arm
        // does and the Ok type is trivially destructible (needs a Tok to call on); only the Ok arm does
        int shape = (o.h + o.n / 8 + (int)o.f) % 3;
        Tok* on = nullptr;
        for (auto& y : hs) if (y.kind == 1 && !on) on = y.tok.get();
        if (shape == 1 && !on) shape = 0;
        if (shape == 1) { churn([&](bool ok) { uint32_t cid = 0; return on->try_call(ok, make_fn(cid)); }); inc("result_assigned_over_live_result_trivial_ok_owning_err"); }
        else if (shape == 2) { churn([&](bool ok) { return Tok::try_new_pod_err(ok); }); inc("result_assigned_over_live_result_owning_ok_trivial_err"); }
        else churn([&](bool ok) { return Tok::try_new(ok); });
        inc("result_assigned_over_live_result");
        break;
      }
      case MAYBE_NEW: {
        if (x.kind) return false;
        auto t = Tok::maybe_new(o.f);
        if ((t != nullptr) != o.f) { fail("O5-value-integrity", "maybe_new returned the wrong arm"); break; }
        if (t) put_tok(o.h, std::move(t)); else inc("fault_arm_none_fired");
        break;
      }
      case TRY_NEW_POD: {
        if (x.kind) return false;
        auto r = Tok::try_new_pod_err(o.f);
        if (r.is_ok() != o.f) { fail("O5-value-integrity", "try_new_pod_err returned the wrong arm"); break; }
        if (o.f) put_tok(o.h, std::move(r).ok().value()); else { inc("fault_arm_err_fired"); if (std::move(r).err().value().code != -7) fail("O5-value-integrity", "ErrPod damaged"); }
        break;
      }
      case LIST_NEW: {
        if (x.kind) return false;
        uint32_t first = vb_ledger_next_id();
        auto l = TokList::new_(o.n);
        hs[o.h] = H(); hs[o.h].kind = 4; hs[o.h].id = l->id();
        for (int i = 0; i < o.n; i++) hs[o.h].items.push_back(first + 1 + i);
        hs[o.h].list = std::move(l);
        if (hs[o.h].id != first) fail("O5-value-integrity", "list id unexpected");
        break;
      }
      case ITER_BEGIN: {
        A& a = ads[o.g % NA];
        if (x.kind != 4 || a.it) return false;
        uint32_t iid = vb_ledger_next_id();
        a.grp = std::make_shared<IterGroup>(IterGroup{iid, 1, x.items, 0, o.h});
        a.it.emplace(x.list->begin());
        // the adapter fetched the first element on construction
        a.curr = a.grp->pos < a.grp->items.size() ? std::optional<uint32_t>(a.grp->items[a.grp->pos++]) : std::nullopt;
        inc("iterator_adapters_created");
        break;
      }
      case ITER_COPY: {
        A& src = ads[o.g % NA]; A& dst = ads[o.d % NA];
        if (!src.it || dst.it || &src == &dst) return false;
        dst.it.emplace(*src.it); dst.grp = src.grp; dst.grp->refs++; dst.curr = src.curr;
        inc("iterator_adapters_copied");
        break;
      }
      case ITER_DROP: {
        A& a = ads[o.g % NA];
        if (!a.it) return false;
        a.it.reset(); a.grp->refs--; a.grp.reset(); a.curr.reset();
        break;
      }
      case ITER_ADVANCE: {
        A& a = ads[o.g % NA];
        if (!a.it) return false;
        bool has = (*a.it != std::nullopt);
        if (has != a.curr.has_value()) { fail("O5-value-integrity", "iterator adapter end state wrong"); break; }
        if (has) {
          if (**a.it != *a.curr) { fail("O5-value-integrity", "iterator adapter yields " + std::to_string(**a.it) + " expected " + std::to_string(*a.curr)); break; }
          ++*a.it;
          a.curr = a.grp->pos < a.grp->items.size() ? std::optional<uint32_t>(a.grp->items[a.grp->pos++]) : std::nullopt;
        }
        inc("iterator_adapters_advanced");
        break;
      }
      case ITER_RANGE: {
        if (x.kind != 4) return false;
        std::vector<uint32_t> seen;
        for (auto it = x.list->begin(); it != std::nullopt; ++it) seen.push_back(*it);
        if (seen != x.items) fail("O5-value-integrity", "iteration yields wrong elements");
        break;
      }
      case ID: {
        if (!x.kind) return false;
        uint32_t got = x.kind == 1 ? x.tok->id() : x.kind == 2 ? x.err->id() : x.kind == 4 ? x.list->id() : x.view->id();
        if (got != x.id) fail("O5-value-integrity", "handle reports a different id");
        break;
      }
      case BUMP: if (x.kind != 1 || has_dependents(o.h)) return false; x.tok->bump(); break;
      case PEER: { if (x.kind != 1) return false; const Tok& p = x.tok->peer(); if (&p != x.tok.get() || p.id() != x.id) fail("O5-value-integrity", "peer() is not the same object"); break; }
      case MAYBE_PEER: { if (x.kind != 1) return false; const Tok* p = x.tok->maybe_peer(o.f); if ((p != nullptr) != o.f || (p && p != x.tok.get())) fail("O5-value-integrity", "maybe_peer() wrong"); break; }
      case VIEW: { if (x.kind != 1 || hs[o.d].kind) return false; put_view(o.d, o.h, x.tok->view()); break; }
      case TRY_VIEW: {
        if (x.kind != 1 || hs[o.d].kind) return false;
        auto r = x.tok->try_view(o.f);
        if (r.is_ok() != o.f) { fail("O5-value-integrity", "try_view wrong arm"); break; }
        if (o.f) put_view(o.d, o.h, std::move(r).ok().value()); else { inc("fault_arm_err_fired"); put_err(o.d, std::move(r).err().value()); }
        break;
      }
      case VIEW_OWNER: {
        if (x.kind != 3) return false;
        uint32_t want = hs[x.lender].id;
        if (x.view->owner_id() != want || x.view->owner().id() != want) fail("O5-value-integrity", "view reads a different owner");
        inc("probe_read_through_borrow");
        break;
      }
      case PAIR: {
        if (x.kind != 1 || hs[o.g].kind != 1) return false;
        OutPair p = x.tok->pair(*hs[o.g].tok, o.f);
        bool ok = &p.a == x.tok.get() && (p.b != nullptr) == o.f && (!p.b || p.b == hs[o.g].tok.get()) && p.n.has_value() == o.f && (!o.f || *p.n == hs[o.g].id);
        if (!ok) fail("O5-value-integrity", "pair() fields wrong");
        break;
      }
      case TRY_PAIR: {
        if (x.kind != 1 || hs[o.g].kind != 1 || hs[o.d].kind) return false;
        auto r = x.tok->try_pair(*hs[o.g].tok, o.f);
        if (r.is_ok() != o.f) { fail("O5-value-integrity", "try_pair wrong arm"); break; }
        if (!o.f) { inc("fault_arm_err_fired"); put_err(o.d, std::move(r).err().value()); }
        break;
      }
      case TAKE_STRS: {
        if (x.kind != 1) return false;
        if (g_known_strs_layout && o.n % 5 > 0) return false;  // listed finding: exercised by `probe strs` in its own process
        std::vector<std::string> strs; for (int i = 0; i < o.n % 5; i++) strs.push_back(std::string(i, 'x'));
        std::vector<std::string_view> views(strs.begin(), strs.end());
        uint32_t want = 0; for (int i = 0; i < o.n % 5; i++) want += i + 1 + i * (uint32_t)'x';
        if (x.tok->take_strs({views.data(), views.size()}) != want) fail("O5-value-integrity", "take_strs wrong");
        break;
      }
      case SUM: {
        if (x.kind != 1) return false;
        std::vector<uint32_t> v; uint32_t want = 0; for (int i = 0; i < o.n; i++) { v.push_back(i); want += i; }
        if (x.tok->sum({v.data(), v.size()}) != want) fail("O5-value-integrity", "sum wrong");
        break;
      }
      case FILL: {
        if (x.kind != 1) return false;
        std::vector<uint32_t> v(o.n, 0);
        x.tok->fill({v.data(), v.size()});
        for (int i = 0; i < o.n; i++) if (v[i] != x.id + i) fail("O5-value-integrity", "fill wrong");
        break;
      }
      case CALL: case IGNORE: case CALL_MUT: {
        if (x.kind != 1) return false;
        uint32_t cid = 0; uint32_t got;
        { Fn f = make_fn(cid); got = o.k == CALL ? x.tok->call(std::move(f)) : o.k == CALL_MUT ? x.tok->call_mut(std::move(f)) : x.tok->ignore(std::move(f)); }
        if (o.k != IGNORE && got != x.id + cid) fail("O5-value-integrity", "callback result wrong");
        if (o.k == IGNORE) inc("fault_callback_never_called_fired");
        if (vb_ledger_is_live(cid)) fail("O3-leak", "callback capture still alive after the call returned");
        inc("callback_passed");
        break;
      }
      case CALL_TWICE: {
        if (x.kind != 1) return false;
        uint32_t c1 = 0, c2 = 0; uint32_t got;
        { Fn f = make_fn(c1); Fn g = make_fn(c2); got = x.tok->call_twice(std::move(f), std::move(g)); }
        if (got != (1 + c1) + (2 + c2)) fail("O5-value-integrity", "call_twice result wrong");
        if (vb_ledger_is_live(c1) || vb_ledger_is_live(c2)) fail("O3-leak", "callback capture still alive after the call returned");
        break;
      }
      case TRY_CALL: {
        if (x.kind != 1 || hs[o.d].kind) return false;
        uint32_t cid = 0;
        {
          Fn f = make_fn(cid);
          auto r = x.tok->try_call(o.f, std::move(f));
          if (r.is_ok() != o.f) { fail("O5-value-integrity", "try_call wrong arm"); break; }
          if (o.f) { if (std::move(r).ok().value() != x.id + cid) fail("O5-value-integrity", "try_call result wrong"); }
          else { inc("fault_arm_err_fired"); inc("fault_callback_never_called_fired"); put_err(o.d, std::move(r).err().value()); }
        }
        if (vb_ledger_is_live(cid)) fail("O3-leak", "callback capture still alive after try_call returned");
        break;
      }
      case GREET: {
        if (x.kind != 1) return false;
        uint32_t cid = 0;
        bool valid = o.f;
        std::string s = valid ? std::string("h\xc3\xa9llo").substr(0, 6) : std::string("ab\xff" "cd");
        {
          Fn f = make_fn(cid);
          auto r = (o.n % 2 == 0) ? x.tok->greet(s, std::move(f)) : x.tok->greet_after(std::move(f), s);
          if (r.is_ok() != valid) { fail("O5-value-integrity", "greet: UTF-8 validation outcome wrong"); break; }
          if (valid) { if (std::move(r).ok().value() != (uint32_t)s.size() + cid) fail("O5-value-integrity", "greet result wrong"); }
          else inc("fault_invalid_utf8_short_circuit_fired");
        }
        if (vb_ledger_is_live(cid)) fail("O3-leak", "callback capture still alive after greet returned");
        break;
      }
      case HOLD: case HOLD_MUT: {
        if (x.kind != 1 || has_dependents(o.h)) return false;
        uint32_t cid = 0; uint32_t old = x.held;
        { Fn f = make_fn(cid); if (o.k == HOLD) x.tok->hold(std::move(f)); else x.tok->hold_mut(std::move(f)); }
        x.held = cid; x.held_is_mut = o.k == HOLD_MUT;
        if (!vb_ledger_is_live(cid)) fail("O2-premature-drop", "a callback Rust retains was released when the call that stored it returned");
        if (old && vb_ledger_is_live(old)) fail("O3-leak", "replaced stored callback was not released");
        inc("callback_stored");
        break;
      }
      case CALL_HELD: { if (x.kind != 1) return false; uint32_t got = x.tok->call_held(40); if (got != (x.held && !x.held_is_mut ? 40 + x.held : 0)) fail("O5-value-integrity", "stored callback result wrong"); break; }
      case CALL_HELD_MUT: { if (x.kind != 1 || has_dependents(o.h)) return false; uint32_t got = x.tok->call_held_mut(40); if (got != (x.held && x.held_is_mut ? 40 + x.held : 0)) fail("O5-value-integrity", "stored FnMut callback result wrong"); break; }
      case UNHOLD: { if (x.kind != 1 || has_dependents(o.h)) return false; uint32_t old = x.held; x.tok->unhold(); x.held = 0; if (old && vb_ledger_is_live(old)) fail("O3-leak", "dropped stored callback was not released"); break; }
      case OPT_IN: case DOPT_IN: {
        if (x.kind != 1) return false;
        std::optional<Pod> p = o.f ? std::optional<Pod>(Pod{40, 2}) : std::nullopt;
        uint32_t got = o.k == OPT_IN ? x.tok->opt_in(p) : x.tok->dopt_in(p);
        if (got != (o.f ? 42u : 0u)) fail("O5-value-integrity", "optional struct argument damaged");
        if (!o.f) inc("fault_arm_none_fired");
        break;
      }
      case OPT_U32: { if (x.kind != 1) return false; auto r = x.tok->opt_u32(o.f ? std::optional<uint32_t>(9) : std::nullopt); if (r.has_value() != o.f || (o.f && *r != 10)) fail("O5-value-integrity", "opt_u32 wrong"); break; }
      case RES_UNIT: { auto r = Tok::res_unit(o.f); if (r.is_ok() != o.f || (!o.f && std::move(r).err().value().code != 3)) fail("O5-value-integrity", "res_unit wrong"); if (!o.f) inc("fault_arm_err_fired"); break; }
      case RES_POD: { auto r = Tok::res_pod(o.f); if (r.is_ok() != o.f) fail("O5-value-integrity", "res_pod wrong arm"); else if (o.f) { Pod p = std::move(r).ok().value(); if (p.a != 5 || p.b != 6) fail("O5-value-integrity", "res_pod damaged"); } else inc("fault_arm_err_fired"); break; }
      case DESCRIBE: {
        if (x.kind != 1) return false;
        switch (o.n % 4) {
          case 0: check_string("describe", x.tok->describe(), "tok#" + std::to_string(x.id)); break;
          case 1: check_string("describe_named", x.tok->describe_named(), "named#" + std::to_string(x.id)); break;
          case 2: { auto r = x.tok->opt_describe(o.f); if (r.has_value() != o.f) fail("O5-value-integrity", "opt_describe wrong arm"); else if (o.f) check_string("opt_describe", *r, "opt#" + std::to_string(x.id)); else inc("fault_arm_none_fired"); break; }
          default: { auto r = x.tok->try_describe_named(o.f); if (r.is_ok() != o.f) fail("O5-value-integrity", "try_describe_named wrong arm"); else if (o.f) check_string("try_describe_named", std::move(r).ok().value(), "trynamed#" + std::to_string(x.id)); else inc("fault_arm_err_fired"); break; }
        }
        break;
      }
      case DESCRIBE_N: { if (x.kind != 1) return false; std::string s = x.tok->describe_n(o.n); if (s.size() > 15) inc("fault_sso_to_heap_growth_fired"); check_string("describe_n", s, want_n(o.n)); break; }
      case TRY_DESCRIBE: {
        if (x.kind != 1 || hs[o.d].kind) return false;
        auto r = x.tok->try_describe(o.f);
        if (r.is_ok() != o.f) { fail("O5-value-integrity", "try_describe wrong arm"); break; }
        if (o.f) check_string("try_describe", std::move(r).ok().value(), "try#" + std::to_string(x.id));
        else { inc("fault_arm_err_fired"); put_err(o.d, std::move(r).err().value()); }
        break;
      }
      case DESCRIBE_INTO: {  // the runtime header's WriteFromString over a pre-filled string (SSO-sized or heap)
        if (x.kind != 1) return false;
        static const int PRE[] = {0, 1, 5, 15, 16, 30};
        std::string s(PRE[o.g % 6], 'p');
        std::string prefix = s;
        diplomat::capi::DiplomatWrite w = diplomat::WriteFromString(s);
        diplomat::capi::Tok_describe_n(x.tok->AsFFI(), o.n, &w);
        if (!prefix.empty()) inc("fault_prefilled_string_fired");
        if (prefix.size() <= 15 && s.size() > 15) inc("fault_sso_to_heap_growth_fired");
        check_string("describe_into", s, prefix + want_n(o.n));
        if (o.f) {
          // the same std::string is handed to a second write-out call: it continues behind what is there
          diplomat::capi::DiplomatWrite w2 = diplomat::WriteFromString(s);
          diplomat::capi::Tok_describe_n(x.tok->AsFFI(), (o.n + 3) % 11, &w2);
          inc("fault_string_reused_for_second_call_fired");
          check_string("describe_into (second call)", s, prefix + want_n(o.n) + want_n((o.n + 3) % 11));
        }
        break;
      }
      case DESTROY: {
        if (!x.kind || has_dependents(o.h)) return false;
        uint32_t held = x.held;
        hs[o.h] = H();
        if (held && vb_ledger_is_live(held)) fail("O3-leak", "callback stored in a destroyed object was not released");
        break;
      }
      case MOVE: {
        if (!x.kind || hs[o.d].kind || o.d == o.h) return false;
        int from = o.h;
        hs[o.d] = std::move(hs[from]); hs[from] = H();
        for (auto& y : hs) if (y.kind && y.lender == from) y.lender = o.d;
        for (auto& a : ads) if (a.it && a.grp->list == from) a.grp->list = o.d;
        inc("handle_moved");
        break;
      }
      case THROW_SCOPE: case SCOPE: {
        // a C++ scope holding live wrappers / results / callbacks is left, normally or by an exception
        // thrown by the driver's own code between two API calls (never through a Rust frame)
        if (x.kind != 1) return false;
        try {
          std::vector<std::unique_ptr<Tok>> locals;
          for (int i = 0; i < o.n; i++) locals.push_back(Tok::new_());
          auto r1 = Tok::try_new(true);
          auto r2 = Tok::try_new(false);
          auto v = x.tok->view();
          uint32_t cid = 0; Fn f = make_fn(cid);
          if (!locals.empty()) locals[0]->hold(f);
          if (v->owner_id() != x.id) fail("O5-value-integrity", "scoped view reads a different owner");
          if (o.k == THROW_SCOPE) { inc("fault_throw_in_user_code_fired"); throw ScopeThrow(); }
          inc("scope_exit_normal");
        } catch (const ScopeThrow&) {}
        break;
      }
    }
    return true;
  }

  std::vector<uint32_t> expected_live() {
    std::vector<uint32_t> v;
    for (auto& x : hs) if (x.kind) { v.push_back(x.id); if (x.held) v.push_back(x.held); for (auto i : x.items) v.push_back(i); }
    for (auto& a : ads) if (a.it) v.push_back(a.grp->iter_id);
    std::sort(v.begin(), v.end());
    v.erase(std::unique(v.begin(), v.end()), v.end());
    return v;
  }
};

static Outcome execute(const Trace& t) {
  Outcome out;
  vb_ledger_reset();
  bool c12 = t.prop == "C12";
  {
    Exec ex; ex.c12 = c12; ex.out = &out;
    out.log += "seed=" + std::to_string(t.seed) + " run=" + std::to_string(t.run) + " engine=" + (c12 ? "write-cpp" : "own-cpp") + "\n";
    uint32_t prev = 0; int executed = 0;
    for (size_t i = 0; i < t.ops.size() && !ex.viol; i++) {
      ex.step = (int)i;
      out.log += std::to_string(i) + " " + op_text(t.ops[i]) + " ";
      bool ran = ex.run(t.ops[i]);
      if (!ran) { out.counters["ops_skipped"]++; out.log += "skipped\n"; continue; }
      executed++; out.counters["ops_executed"]++;
      uint32_t k = (uint32_t)t.ops[i].k * 2 + (t.ops[i].f ? 1 : 0);
      out.transitions.push_back((prev << 8) | k); prev = k;
      if (ex.viol) break;
      if (vb_ledger_bad_count() != 0) { ex.fail("O1-exactly-once", "an object was dropped twice (or a garbage payload was dropped)"); break; }
      auto exp = ex.expected_live();
      bool missing = false; for (auto id : exp) if (!vb_ledger_is_live(id)) missing = true;
      if (missing) { ex.fail("O2-premature-drop", "an object still owned by the C++ side was already dropped"); break; }
      if (vb_ledger_live_count() != exp.size()) { ex.fail("O2-leak", "objects are alive although nothing owns them any more: live=" + std::to_string(vb_ledger_live_count()) + " owned=" + std::to_string(exp.size())); break; }
      out.log += "live=" + std::to_string(exp.size()) + "\n";
    }
    if (!ex.viol) {
      ex.step = (int)t.ops.size();
      // release everything still held: iterator adapters and views first (they borrow), then the rest
      for (auto& a : ex.ads) { a.it.reset(); a.grp.reset(); }
      for (auto& x : ex.hs) if (x.kind == 3) x = H();
      for (auto& x : ex.hs) x = H();
      if (vb_ledger_bad_count() != 0) ex.fail("O1-exactly-once", "an object was dropped twice while releasing the remaining handles");
      else if (vb_ledger_live_count() != 0) ex.fail("O3-leak", std::to_string(vb_ledger_live_count()) + " objects were never dropped");
      out.log += "end live=" + std::to_string(vb_ledger_live_count()) + " drops=" + std::to_string(vb_ledger_drops()) + "\n";
    } else {
      // after a violation the wrappers may own freed memory: leak them rather than touch them again
      for (auto& x : ex.hs) { (void)x.tok.release(); (void)x.err.release(); (void)x.view.release(); (void)x.list.release(); }
      for (auto& a : ex.ads) if (a.it) { new Adapter(std::move(*a.it)); }
    }
    out.violation = ex.viol;
    out.nontrivial = executed >= 2;
  }
  if (out.violation) out.log += "VIOLATION oracle=" + out.violation->oracle + " step=" + std::to_string(out.violation->step) + " " + out.violation->detail + "\n";
  return out;
}

// ---- ddmin ----------------------------------------------------------------------------------------
static Trace minimise(const Trace& t, const std::string& oracle) {
  auto fails = [&](const std::vector<Op>& ops) { Trace c = t; c.ops = ops; auto o = execute(c); return o.violation && o.violation->oracle == oracle; };
  std::vector<Op> cur = t.ops; size_t n = 2; int budget = 1500;
  while (cur.size() >= 2 && budget > 0) {
    size_t chunk = (cur.size() + n - 1) / n; bool reduced = false;
    for (size_t i = 0; i * chunk < cur.size() && budget > 0; i++) {
      size_t lo = i * chunk, hi = std::min(lo + chunk, cur.size());
      std::vector<Op> cand(cur.begin(), cur.begin() + lo); cand.insert(cand.end(), cur.begin() + hi, cur.end());
      budget--;
      if (fails(cand)) { cur = cand; n = std::max<size_t>(n - 1, 2); reduced = true; break; }
    }
    if (!reduced) { if (n >= cur.size()) break; n = std::min(n * 2, cur.size()); }
  }
  Trace r = t; r.ops = cur; return r;
}

static std::string json_str(const std::string& s) {
  std::string o = "\"";
  for (unsigned char c : s) { if (c == '"') o += "\\\""; else if (c == '\\') o += "\\\\"; else if (c == '\n') o += "\\n"; else if (c < 0x20) { char b[8]; snprintf(b, 8, "\\u%04x", c); o += b; } else o += (char)c; }
  return o + "\"";
}

int main(int argc, char** argv) {
  std::map<std::string, std::string> kv; std::vector<std::string> pos;
  for (int i = 1; i < argc; i++) { std::string a = argv[i]; if (a.rfind("--", 0) == 0 && i + 1 < argc) { kv[a.substr(2)] = argv[i + 1]; i++; } else pos.push_back(a); }
  if (pos.empty()) { fprintf(stderr, "usage: own_driver run|gen|replay ...\n"); return 2; }
  std::string prop = kv.count("prop") ? kv["prop"] : "C03";
  uint64_t seed = kv.count("seed") ? strtoull(kv["seed"].c_str(), nullptr, 10) : 20261002ull;
  g_known_strs_layout = kv.count("known") && kv["known"].find("cpp-strs-layout") != std::string::npos;
  if (pos[0] == "probe") {
    // one-call demonstration of a listed finding, run in its own process by the orchestrator:
    // prints PROBE-OK when the API behaves, PROBE-BAD (or dies) when it does not
    vb_ledger_reset();
    auto t = Tok::new_();
    std::string a = "abc", b = "de";
    std::vector<std::string_view> views{a, b};
    uint32_t got = t->take_strs({views.data(), views.size()});
    if (got == (3 + 1 + 'a' + 'b' + 'c') + (2 + 1 + 'd' + 'e')) { std::cout << "PROBE-OK take_strs\n"; return 0; }
    std::cout << "PROBE-BAD take_strs returned " << got << " (wrong)\n"; return 1;
  }
  if (pos[0] == "gen") { std::cout << trace_text(gen_trace(seed, strtoull(kv["run"].c_str(), nullptr, 10), prop)); return 0; }
  if (pos[0] == "replay") {
    if (pos.size() < 2) return 2;
    std::ifstream f(pos[1]); std::stringstream ss; ss << f.rdbuf();
    Trace t; if (!f || !parse_trace(ss.str(), t)) { fprintf(stderr, "HARNESS-ERROR cannot parse %s\n", pos[1].c_str()); return 2; }
    Outcome o = execute(t); std::cout << o.log;
    if (o.violation) { std::cout << "VIOLATION property=" << t.prop << " replay=" << pos[1] << " oracle=" << o.violation->oracle << " engine=cpp step=" << o.violation->step << " detail=" << json_str(o.violation->detail) << "\n"; std::cout.flush(); _exit(1); }
    std::cout << "REPLAY-OK no violation\n"; return 0;
  }
  if (pos[0] != "run") return 2;
  uint64_t from = strtoull(kv["from"].c_str(), nullptr, 10), to = strtoull(kv["to"].c_str(), nullptr, 10);
  std::set<uint64_t> traces, nontrivial; std::set<uint32_t> transitions; std::map<std::string, uint64_t> counters; uint64_t digest = 0, runs = 0;
  std::vector<std::string> samples;
  std::cout << "SEED " << seed << "\n";
  int code = 0; std::string oracle;
  for (uint64_t run = from; run < to; run++) {
    Trace t = gen_trace(seed, run, prop);
    Outcome o = execute(t); runs++;
    std::string text = trace_text(t);
    std::string body = text.substr(text.find('\n', text.find("seed ")) + 1);
    uint64_t th = fnv1a64(body); traces.insert(th); if (o.nontrivial) { nontrivial.insert(th); if (samples.size() < 2) samples.push_back(text); }
    for (auto tr : o.transitions) transitions.insert(tr);
    for (auto& c : o.counters) counters[c.first] += c.second;
    uint64_t lh = fnv1a64(o.log); digest += ((lh << (run % 61)) | (lh >> ((64 - run % 61) % 64))) ^ (run * 0x9e3779b97f4a7c15ull);
    if (o.violation) {
      Trace m = minimise(t, o.violation->oracle); Outcome mo = execute(m);
      std::string rep = trace_text(m) + "# property " + prop + "\n# oracle " + o.violation->oracle + "\n# minimised from seed " + std::to_string(seed) + " run " + std::to_string(run) + " of engine cpp\n";
      std::istringstream ls(mo.log); std::string l; while (std::getline(ls, l)) rep += "# log: " + l + "\n";
      std::cout << "-----BEGIN REPLAY-----\n" << rep << "-----END REPLAY-----\n";
      std::cout << "VIOLATION property=" << prop << " replay=- oracle=" << o.violation->oracle << " engine=cpp seed=" << seed << " run=" << run << " step=" << o.violation->step << " detail=" << json_str(o.violation->detail) << "\n";
      code = 1; oracle = o.violation->oracle; break;
    }
  }
  std::cout << "STATS {\"engine\":\"cpp\",\"seed\":" << seed << ",\"runs\":" << runs << ",\"distinct_traces\":" << traces.size() << ",\"distinct_nontrivial\":" << nontrivial.size() << ",\"distinct_transitions\":" << transitions.size() << ",\"log_digest\":\"" << std::hex << digest << std::dec << "\",\"violations\":" << code << ",\"oracle\":" << json_str(oracle) << ",\"counters\":{";
  bool first = true; for (auto& c : counters) { if (!first) std::cout << ","; first = false; std::cout << json_str(c.first) << ":" << c.second; }
  std::cout << "},\"samples\":["; for (size_t i = 0; i < samples.size(); i++) { if (i) std::cout << ","; std::cout << json_str(samples[i]); }
  std::cout << "]}\n";
  std::cout.flush();
  // after a violation the driver deliberately leaked the wrappers involved: skip the leak check at exit
  if (code) _exit(code);
  return code;
}
