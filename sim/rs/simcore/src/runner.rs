//! Generic batch runner shared by the Rust engines: seeded generation, parallel execution with a
//! thread-count-independent result, shape-distinct selection (for Miri), violation minimisation
//! hand-off, replay, STATS line. The executor of an engine is a pure function of its trace.

use crate::{fnv1a64, json_str};
use std::collections::{BTreeMap, BTreeSet};

#[derive(Clone, Debug, PartialEq, Eq)]
pub struct Violation {
    pub oracle: String,
    pub step: usize,
    pub detail: String,
}

#[derive(Default)]
pub struct Outcome {
    pub log: String,
    pub violation: Option<Violation>,
    pub counters: Vec<(&'static str, u64)>,
    pub transitions: Vec<u32>,
    pub nontrivial: bool,
}

pub trait Sim: Sync {
    type Trace: Clone + Send;
    fn prop(&self) -> &'static str;
    fn name(&self) -> &'static str;
    fn gen(&self, seed: u64, run: u64, miri: bool) -> Self::Trace;
    fn exec(&self, t: &Self::Trace) -> Outcome;
    fn to_text(&self, t: &Self::Trace) -> String;
    fn from_text(&self, s: &str) -> Result<Self::Trace, String>;
    fn shape(&self, t: &Self::Trace) -> String;
    fn ids(&self, t: &Self::Trace) -> (u64, u64);
    /// shrink while `still_fails` holds (same violation class); bounded by the implementation
    fn minimise(&self, t: &Self::Trace, still_fails: &mut dyn FnMut(&Self::Trace) -> bool) -> Self::Trace;
    fn selftest(&self) -> Result<(), String> {
        Ok(())
    }
}

#[derive(Default)]
struct Agg<T> {
    runs: u64,
    counters: BTreeMap<&'static str, u64>,
    transitions: BTreeSet<u32>,
    trace_hashes: Vec<u64>,
    shape_hashes: Vec<u64>,
    nontrivial_hashes: Vec<u64>,
    log_digest: u64,
    run_hashes: Vec<(u64, u64)>,
    first_violation: Option<(u64, T, Violation)>,
    samples: Vec<String>,
}

impl<T> Agg<T> {
    fn new() -> Self {
        Agg {
            runs: 0,
            counters: BTreeMap::new(),
            transitions: BTreeSet::new(),
            trace_hashes: vec![],
            shape_hashes: vec![],
            nontrivial_hashes: vec![],
            log_digest: 0,
            run_hashes: vec![],
            first_violation: None,
            samples: vec![],
        }
    }
}

fn strip_header(text: &str) -> String {
    text.lines().filter(|l| !l.starts_with("seed ")).collect::<Vec<_>>().join("\n")
}

fn absorb<S: Sim>(sim: &S, agg: &mut Agg<S::Trace>, t: &S::Trace, out: Outcome, keep: bool) {
    agg.runs += 1;
    for (k, v) in &out.counters {
        if *v > 0 {
            *agg.counters.entry(k).or_insert(0) += *v;
        }
    }
    for tr in &out.transitions {
        agg.transitions.insert(*tr);
    }
    let text = sim.to_text(t);
    let th = fnv1a64(strip_header(&text).as_bytes());
    agg.trace_hashes.push(th);
    agg.shape_hashes.push(fnv1a64(sim.shape(t).as_bytes()));
    if out.nontrivial {
        agg.nontrivial_hashes.push(th);
        if agg.samples.len() < 3 {
            agg.samples.push(text);
        }
    }
    let (_, run) = sim.ids(t);
    let lh = fnv1a64(out.log.as_bytes());
    agg.log_digest = agg.log_digest.wrapping_add(lh.rotate_left((run % 61) as u32) ^ run.wrapping_mul(0x9e3779b97f4a7c15));
    if keep {
        agg.run_hashes.push((run, lh));
    }
    if let Some(v) = out.violation {
        let better = match &agg.first_violation {
            None => true,
            Some((r, _, _)) => run < *r,
        };
        if better {
            agg.first_violation = Some((run, t.clone(), v));
        }
    }
}

fn merge<T>(into: &mut Agg<T>, from: Agg<T>) {
    into.runs += from.runs;
    for (k, v) in from.counters {
        *into.counters.entry(k).or_insert(0) += v;
    }
    into.transitions.extend(from.transitions);
    into.trace_hashes.extend(from.trace_hashes);
    into.shape_hashes.extend(from.shape_hashes);
    into.nontrivial_hashes.extend(from.nontrivial_hashes);
    into.log_digest = into.log_digest.wrapping_add(from.log_digest);
    into.run_hashes.extend(from.run_hashes);
    for s in from.samples {
        if into.samples.len() < 3 {
            into.samples.push(s);
        }
    }
    if let Some((r, t, v)) = from.first_violation {
        let better = match &into.first_violation {
            None => true,
            Some((r0, _, _)) => r < *r0,
        };
        if better {
            into.first_violation = Some((r, t, v));
        }
    }
}

fn distinct(v: &mut Vec<u64>) -> u64 {
    v.sort_unstable();
    v.dedup();
    v.len() as u64
}

fn report<S: Sim>(sim: &S, out_dir: &str, tag: &str, t: &S::Trace, v: &Violation) -> String {
    let oracle = v.oracle.clone();
    let min = sim.minimise(t, &mut |c| match sim.exec(c).violation {
        Some(v2) => v2.oracle == oracle,
        None => false,
    });
    let min_out = sim.exec(&min);
    let mut text = sim.to_text(&min);
    let (seed, run) = sim.ids(t);
    text.push_str(&format!("# property {}\n# oracle {}\n# minimised from seed {} run {} of engine {}\n", sim.prop(), v.oracle, seed, run, sim.name()));
    for l in min_out.log.lines() {
        text.push_str("# log: ");
        text.push_str(l);
        text.push('\n');
    }
    if out_dir == "-" {
        println!("-----BEGIN REPLAY-----\n{}-----END REPLAY-----", text);
        println!("-----BEGIN ORIGINAL-----\n{}-----END ORIGINAL-----", sim.to_text(t));
        return "-".into();
    }
    std::fs::create_dir_all(out_dir).ok();
    let path = format!("{}/{}-{}-{}.trace", out_dir, sim.prop(), sim.name(), tag);
    std::fs::write(&path, &text).expect("write replay");
    std::fs::write(format!("{}/{}-{}-{}.orig.trace", out_dir, sim.prop(), sim.name(), tag), sim.to_text(t)).ok();
    path
}

pub fn cmd_run<S: Sim>(sim: &S, kv: &BTreeMap<String, String>) -> i32 {
    let seed: u64 = kv.get("seed").map(|s| s.parse().expect("seed")).unwrap_or(crate::DEFAULT_SEED);
    let from: u64 = kv.get("from").map(|s| s.parse().unwrap()).unwrap_or(0);
    let to: u64 = kv.get("to").map(|s| s.parse().unwrap()).unwrap_or(1000);
    let threads: u64 = kv.get("threads").map(|s| s.parse().unwrap()).unwrap_or(1).max(1);
    let out_dir = kv.get("out").cloned().unwrap_or_else(|| "-".into());
    let distinct_shapes: Option<u64> = kv.get("distinct-shapes").map(|s| s.parse().unwrap());
    let keep = kv.contains_key("dump-hashes");
    let miri = cfg!(miri) || kv.contains_key("miri-shapes");
    if let Err(e) = sim.selftest() {
        eprintln!("HARNESS-ERROR selftest: {}", e);
        return 2;
    }
    println!("SEED {}", seed);
    let mut agg: Agg<S::Trace> = Agg::new();
    if let Some(n) = distinct_shapes {
        let mut seen = BTreeSet::new();
        let mut run = from;
        while (seen.len() as u64) < n && run < to {
            let t = sim.gen(seed, run, miri);
            run += 1;
            if !seen.insert(sim.shape(&t)) {
                continue;
            }
            let out = sim.exec(&t);
            absorb(sim, &mut agg, &t, out, keep);
            if agg.first_violation.is_some() {
                break;
            }
        }
    } else {
        let parts: Vec<Agg<S::Trace>> = std::thread::scope(|s| {
            let hs: Vec<_> = (0..threads)
                .map(|ti| {
                    s.spawn(move || {
                        let mut a: Agg<S::Trace> = Agg::new();
                        let mut run = from + ti;
                        while run < to {
                            let t = sim.gen(seed, run, miri);
                            let out = sim.exec(&t);
                            absorb(sim, &mut a, &t, out, keep);
                            run += threads;
                        }
                        a
                    })
                })
                .collect();
            hs.into_iter().map(|h| h.join().expect("worker panicked")).collect()
        });
        for p in parts {
            merge(&mut agg, p);
        }
    }
    let mut code = 0;
    let mut replay = String::new();
    let mut oracle = String::new();
    if let Some((run, t, v)) = agg.first_violation.take() {
        let tag = format!("{}-{}", seed, run);
        replay = report(sim, &out_dir, &tag, &t, &v);
        oracle = v.oracle.clone();
        println!("VIOLATION property={} replay={} oracle={} engine={} seed={} run={} step={} detail={}", sim.prop(), replay, v.oracle, sim.name(), seed, run, v.step, json_str(&v.detail));
        code = 1;
    }
    if let Some(f) = kv.get("dump-hashes") {
        agg.run_hashes.sort();
        let mut s = String::new();
        for (r, h) in &agg.run_hashes {
            s.push_str(&format!("{} {:016x}\n", r, h));
        }
        std::fs::write(f, s).expect("dump hashes");
    }
    let d_traces = distinct(&mut agg.trace_hashes);
    let d_shapes = distinct(&mut agg.shape_hashes);
    let d_nontrivial = distinct(&mut agg.nontrivial_hashes);
    let samples: Vec<String> = agg.samples.iter().map(|s| json_str(s)).collect();
    let mut cj = String::from("{");
    for (i, (k, v)) in agg.counters.iter().enumerate() {
        if i > 0 {
            cj.push(',');
        }
        cj.push_str(&format!("{}:{}", json_str(k), v));
    }
    cj.push('}');
    println!(
        "STATS {{\"engine\":{},\"seed\":{},\"runs\":{},\"distinct_traces\":{},\"distinct_shapes\":{},\"distinct_nontrivial\":{},\"distinct_transitions\":{},\"log_digest\":\"{:016x}\",\"violations\":{},\"replay\":{},\"oracle\":{},\"counters\":{},\"samples\":[{}]}}",
        json_str(sim.name()),
        seed,
        agg.runs,
        d_traces,
        d_shapes,
        d_nontrivial,
        agg.transitions.len(),
        agg.log_digest,
        code,
        json_str(&replay),
        json_str(&oracle),
        cj,
        samples.join(",")
    );
    code
}

pub fn cmd_replay<S: Sim>(sim: &S, path: &str) -> i32 {
    let text = match std::fs::read_to_string(path) {
        Ok(t) => t,
        Err(e) => {
            eprintln!("HARNESS-ERROR cannot read {}: {}", path, e);
            return 2;
        }
    };
    let t = match sim.from_text(&text) {
        Ok(t) => t,
        Err(e) => {
            eprintln!("HARNESS-ERROR cannot parse {}: {}", path, e);
            return 2;
        }
    };
    if let Err(e) = sim.selftest() {
        eprintln!("HARNESS-ERROR selftest: {}", e);
        return 2;
    }
    let out = sim.exec(&t);
    print!("{}", out.log);
    match out.violation {
        Some(v) => {
            println!("VIOLATION property={} replay={} oracle={} engine={} step={} detail={}", sim.prop(), path, v.oracle, sim.name(), v.step, json_str(&v.detail));
            1
        }
        None => {
            println!("REPLAY-OK no violation");
            0
        }
    }
}

pub fn cmd_gen<S: Sim>(sim: &S, kv: &BTreeMap<String, String>) -> i32 {
    let seed: u64 = kv.get("seed").map(|s| s.parse().unwrap()).unwrap_or(crate::DEFAULT_SEED);
    let run: u64 = kv.get("run").map(|s| s.parse().unwrap()).unwrap_or(0);
    print!("{}", sim.to_text(&sim.gen(seed, run, kv.contains_key("miri-shapes"))));
    0
}
