//! Fault-injecting, double-free-detecting global allocator (fault kind "failing allocation").
//!
//! Disarmed it is a pass-through to `System` (one relaxed atomic load per call). Armed with a
//! countdown k, the k-th allocation/reallocation request from now returns null exactly once. While
//! tracking is on, frees are recorded in a small table so that a second free of the same block is
//! *recorded and skipped* instead of corrupting the real allocator. Used single-threaded only
//! (`write-sim allocfault` runs one trace per process).

use std::alloc::{GlobalAlloc, Layout, System};
use std::sync::atomic::{AtomicBool, AtomicI64, AtomicUsize, Ordering::Relaxed};

pub struct FaultAlloc;

static COUNTDOWN: AtomicI64 = AtomicI64::new(-1);
static FIRED: AtomicUsize = AtomicUsize::new(0);
static TRACK: AtomicBool = AtomicBool::new(false);
static DOUBLE_FREE: AtomicUsize = AtomicUsize::new(0);
static CAREFUL: AtomicBool = AtomicBool::new(false);
const N: usize = 1024;

/// "careful" mode (single-threaded engines only): every trace runs with free-tracking on, so a double
/// free is recorded at the operation where it happens instead of corrupting the process heap
pub fn set_careful(on: bool) {
    CAREFUL.store(on, Relaxed)
}
pub fn careful() -> bool {
    CAREFUL.load(Relaxed)
}
#[allow(clippy::declare_interior_mutable_const)]
const Z: AtomicUsize = AtomicUsize::new(0);
static FREED: [AtomicUsize; N] = [Z; N];

pub fn arm(k: i64) {
    COUNTDOWN.store(k, Relaxed)
}
pub fn disarm() -> i64 {
    COUNTDOWN.swap(-1, Relaxed)
}
pub fn fired() -> usize {
    FIRED.load(Relaxed)
}
pub fn track(on: bool) {
    if on {
        for f in FREED.iter() {
            f.store(0, Relaxed);
        }
        DOUBLE_FREE.store(0, Relaxed);
    }
    TRACK.store(on, Relaxed)
}
pub fn double_frees() -> usize {
    DOUBLE_FREE.load(Relaxed)
}

fn should_fail() -> bool {
    let c = COUNTDOWN.load(Relaxed);
    if c < 0 {
        return false;
    }
    if c == 0 {
        COUNTDOWN.store(-1, Relaxed);
        FIRED.fetch_add(1, Relaxed);
        return true;
    }
    COUNTDOWN.store(c - 1, Relaxed);
    false
}

fn note_alloc(p: *mut u8) {
    if !TRACK.load(Relaxed) || p.is_null() {
        return;
    }
    for f in FREED.iter() {
        if f.load(Relaxed) == p as usize {
            f.store(0, Relaxed); // the real allocator handed the block out again
        }
    }
}

/// true = this free is legitimate and must be forwarded
fn note_free(p: *mut u8) -> bool {
    if !TRACK.load(Relaxed) {
        return true;
    }
    for f in FREED.iter() {
        if f.load(Relaxed) == p as usize {
            DOUBLE_FREE.fetch_add(1, Relaxed);
            return false;
        }
    }
    for f in FREED.iter() {
        if f.load(Relaxed) == 0 {
            f.store(p as usize, Relaxed);
            break;
        }
    }
    true
}

unsafe impl GlobalAlloc for FaultAlloc {
    unsafe fn alloc(&self, layout: Layout) -> *mut u8 {
        if should_fail() {
            return std::ptr::null_mut();
        }
        let p = System.alloc(layout);
        note_alloc(p);
        p
    }
    unsafe fn dealloc(&self, ptr: *mut u8, layout: Layout) {
        if note_free(ptr) {
            System.dealloc(ptr, layout)
        }
    }
    unsafe fn realloc(&self, ptr: *mut u8, layout: Layout, new_size: usize) -> *mut u8 {
        if should_fail() {
            return std::ptr::null_mut();
        }
        if TRACK.load(Relaxed) {
            // make the old block observable as freed: allocate-copy-free instead of in-place growth
            let new_layout = Layout::from_size_align_unchecked(new_size, layout.align());
            let np = System.alloc(new_layout);
            if np.is_null() {
                return np;
            }
            note_alloc(np);
            std::ptr::copy_nonoverlapping(ptr, np, layout.size().min(new_size));
            if note_free(ptr) {
                System.dealloc(ptr, layout);
            }
            return np;
        }
        System.realloc(ptr, layout, new_size)
    }
}
