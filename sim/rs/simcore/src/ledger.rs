//! The ownership ledger: reference model state for property C03 (DESIGN.md §3.1).
//!
//! Every tracked payload registers on construction and reports on `Drop`. The ledger is
//! thread-local (native batches run one trace per thread at a time) and never panics: a drop of an
//! id that is not live is *recorded* (oracle O1) so the executor can report it at the step where it
//! happened.

use std::cell::RefCell;

#[derive(Clone, Debug, PartialEq, Eq)]
pub enum Event {
    Created(u32),
    Dropped(u32),
    /// drop of an id that is not live: second drop, or garbage read from freed memory
    BadDrop(u32),
}

#[derive(Default)]
struct State {
    next_id: u32,
    live: Vec<u32>, // sorted
    ever: u32,      // ids < ever were created at some point
    events: Vec<Event>,
    bad: Vec<String>,
    clone_fault: Option<u32>,
    clone_faults_fired: u32,
    drops: u64,
    zst_live: i64,
}

thread_local! {
    static ST: RefCell<State> = RefCell::new(State { next_id: 1, ..Default::default() });
}

pub fn reset() {
    ST.with(|s| {
        let mut s = s.borrow_mut();
        *s = State { next_id: 1, ..Default::default() };
    })
}

/// Allocates the next id without registering it (used for untracked payload values too, so that
/// every payload of a run carries a unique, predictable number).
pub fn alloc_id() -> u32 {
    ST.with(|s| {
        let mut s = s.borrow_mut();
        let id = s.next_id;
        s.next_id += 1;
        id
    })
}

pub fn next_id() -> u32 {
    ST.with(|s| s.borrow().next_id)
}

pub fn register(id: u32) {
    ST.with(|s| {
        let mut s = s.borrow_mut();
        match s.live.binary_search(&id) {
            Ok(_) => s.bad.push(format!("id {} registered twice", id)),
            Err(pos) => s.live.insert(pos, id),
        }
        if id >= s.ever {
            s.ever = id + 1;
        }
        s.events.push(Event::Created(id));
    })
}

/// Returns true if the id was live (a legitimate drop). A false return means the payload must not
/// release its resources again.
pub fn on_drop(id: u32) -> bool {
    ST.with(|s| {
        let mut s = s.borrow_mut();
        s.drops += 1;
        match s.live.binary_search(&id) {
            Ok(pos) => {
                s.live.remove(pos);
                s.events.push(Event::Dropped(id));
                true
            }
            Err(_) => {
                let what = if id < s.ever { "dropped twice" } else { "dropped but never created (garbage payload)" };
                s.bad.push(format!("payload #{} {}", id, what));
                s.events.push(Event::BadDrop(id));
                false
            }
        }
    })
}

pub fn live() -> Vec<u32> {
    ST.with(|s| s.borrow().live.clone())
}

pub fn live_count() -> usize {
    ST.with(|s| s.borrow().live.len())
}

pub fn is_live(id: u32) -> bool {
    ST.with(|s| s.borrow().live.binary_search(&id).is_ok())
}

/// Records a violation seen by the foreign side of the harness (e.g. a released callback being called).
pub fn note_bad(msg: String) {
    ST.with(|s| s.borrow_mut().bad.push(msg))
}

pub fn take_bad() -> Vec<String> {
    ST.with(|s| std::mem::take(&mut s.borrow_mut().bad))
}

pub fn take_events() -> Vec<Event> {
    ST.with(|s| std::mem::take(&mut s.borrow_mut().events))
}

/// zero-sized tracked payloads cannot carry an id: they are counted
pub fn zst_created() {
    ST.with(|s| s.borrow_mut().zst_live += 1)
}
pub fn zst_dropped() {
    ST.with(|s| {
        let mut s = s.borrow_mut();
        s.drops += 1;
        s.zst_live -= 1;
        if s.zst_live < 0 {
            s.bad.push("a zero-sized payload was dropped more often than it was created".to_string());
        }
    })
}
pub fn zst_live() -> i64 {
    ST.with(|s| s.borrow().zst_live)
}

pub fn drops() -> u64 {
    ST.with(|s| s.borrow().drops)
}

/// Arms the clone fault: the k-th (0-based) tracked `Clone::clone` from now on panics.
pub fn arm_clone_fault(k: Option<u32>) {
    ST.with(|s| s.borrow_mut().clone_fault = k)
}

/// Called by tracked payloads at the start of `clone`; true = panic now.
pub fn clone_fault_fires() -> bool {
    ST.with(|s| {
        let mut s = s.borrow_mut();
        match s.clone_fault {
            Some(0) => {
                s.clone_fault = None;
                s.clone_faults_fired += 1;
                true
            }
            Some(k) => {
                s.clone_fault = Some(k - 1);
                false
            }
            None => false,
        }
    })
}

pub fn clone_faults_fired() -> u32 {
    ST.with(|s| s.borrow().clone_faults_fired)
}
