//! Common machinery of the deterministic simulators (DESIGN.md §2).
//!
//! * `Rng`: splitmix32-seeded xoshiro128** with 32-bit state words, bit-identical to the
//!   JavaScript, Python and C implementations used by the other engines.
//! * `fnv1a32`: hash used for sub-stream derivation and distinctness counters.
//! * `ddmin`: delta-debugging minimiser over an operation list.
//! * tiny JSON string escaping for the stats the engines print.
//!
//! Nothing in here reads a clock, an address or a hash-randomised container.

use std::collections::BTreeMap;

pub mod faultalloc;
pub mod ledger;
pub mod runner;

pub const DEFAULT_SEED: u64 = 20261002;

#[derive(Clone, Debug)]
pub struct Rng {
    s: [u32; 4],
}

fn splitmix32(state: &mut u32) -> u32 {
    *state = state.wrapping_add(0x9e3779b9);
    let mut z = *state;
    z ^= z >> 16;
    z = z.wrapping_mul(0x21f0aaad);
    z ^= z >> 15;
    z = z.wrapping_mul(0x735a2d97);
    z ^= z >> 15;
    z
}

impl Rng {
    pub fn new(seed: u32) -> Rng {
        let mut st = seed;
        let mut s = [0u32; 4];
        for w in s.iter_mut() {
            *w = splitmix32(&mut st);
        }
        if s == [0, 0, 0, 0] {
            s[0] = 1;
        }
        Rng { s }
    }

    /// Sub-stream for (seed, engine name, run index).
    pub fn derive(seed: u64, engine: &str, run: u64) -> Rng {
        let lo = seed as u32;
        let hi = (seed >> 32) as u32;
        let r_lo = run as u32;
        let r_hi = (run >> 32) as u32;
        let mut st = lo ^ fnv1a32(engine.as_bytes());
        let a = splitmix32(&mut st);
        let mut st2 = a ^ hi.rotate_left(13) ^ r_lo;
        let b = splitmix32(&mut st2);
        let mut st3 = b ^ r_hi.rotate_left(7);
        let c = splitmix32(&mut st3);
        Rng::new(c)
    }

    pub fn next_u32(&mut self) -> u32 {
        let result = self.s[1].wrapping_mul(5).rotate_left(7).wrapping_mul(9);
        let t = self.s[1] << 9;
        self.s[2] ^= self.s[0];
        self.s[3] ^= self.s[1];
        self.s[1] ^= self.s[2];
        self.s[0] ^= self.s[3];
        self.s[2] ^= t;
        self.s[3] = self.s[3].rotate_left(11);
        result
    }

    /// Uniform in 0..n (n > 0); plain modulo, bias irrelevant here and identical in all ports.
    pub fn below(&mut self, n: u32) -> u32 {
        debug_assert!(n > 0);
        self.next_u32() % n
    }

    pub fn range(&mut self, lo: u32, hi_incl: u32) -> u32 {
        lo + self.below(hi_incl - lo + 1)
    }

    /// true with probability num/den
    pub fn chance(&mut self, num: u32, den: u32) -> bool {
        self.below(den) < num
    }

    pub fn pick<'a, T>(&mut self, xs: &'a [T]) -> &'a T {
        &xs[self.below(xs.len() as u32) as usize]
    }
}

pub fn fnv1a32(bytes: &[u8]) -> u32 {
    let mut h: u32 = 0x811c9dc5;
    for b in bytes {
        h ^= *b as u32;
        h = h.wrapping_mul(0x01000193);
    }
    h
}

pub fn fnv1a64(bytes: &[u8]) -> u64 {
    let mut h: u64 = 0xcbf29ce484222325;
    for b in bytes {
        h ^= *b as u64;
        h = h.wrapping_mul(0x100000001b3);
    }
    h
}

/// Delta debugging over a list of items. `fails(candidate)` returns true when the candidate still
/// shows the *same violation class*. Returns a 1-minimal sublist (within `budget` executions).
pub fn ddmin<T: Clone>(items: &[T], budget: &mut usize, fails: &mut dyn FnMut(&[T]) -> bool) -> Vec<T> {
    let mut cur: Vec<T> = items.to_vec();
    let mut n = 2usize;
    while cur.len() >= 2 && *budget > 0 {
        let chunk = (cur.len() + n - 1) / n;
        let mut reduced = false;
        // try removing each chunk (complement test)
        let mut i = 0;
        while i * chunk < cur.len() {
            if *budget == 0 {
                break;
            }
            let lo = i * chunk;
            let hi = (lo + chunk).min(cur.len());
            let mut cand = Vec::with_capacity(cur.len() - (hi - lo));
            cand.extend_from_slice(&cur[..lo]);
            cand.extend_from_slice(&cur[hi..]);
            *budget -= 1;
            if fails(&cand) {
                cur = cand;
                n = (n - 1).max(2);
                reduced = true;
                break;
            }
            i += 1;
        }
        if !reduced {
            if n >= cur.len() {
                break;
            }
            n = (n * 2).min(cur.len());
        }
    }
    if cur.len() == 1 && *budget > 0 {
        *budget -= 1;
        if fails(&[]) {
            cur.clear();
        }
    }
    cur
}

pub fn hex(bytes: &[u8]) -> String {
    let mut s = String::with_capacity(bytes.len() * 2);
    for b in bytes {
        s.push_str(&format!("{:02x}", b));
    }
    s
}

pub fn unhex(s: &str) -> Option<Vec<u8>> {
    if s.len() % 2 != 0 {
        return None;
    }
    let mut out = Vec::with_capacity(s.len() / 2);
    let b = s.as_bytes();
    for i in (0..b.len()).step_by(2) {
        let h = (b[i] as char).to_digit(16)?;
        let l = (b[i + 1] as char).to_digit(16)?;
        out.push((h * 16 + l) as u8);
    }
    Some(out)
}

pub fn json_str(s: &str) -> String {
    let mut o = String::from("\"");
    for c in s.chars() {
        match c {
            '"' => o.push_str("\\\""),
            '\\' => o.push_str("\\\\"),
            '\n' => o.push_str("\\n"),
            '\r' => o.push_str("\\r"),
            '\t' => o.push_str("\\t"),
            c if (c as u32) < 0x20 => o.push_str(&format!("\\u{:04x}", c as u32)),
            c => o.push(c),
        }
    }
    o.push('"');
    o
}

/// Deterministically ordered counters (printed as a JSON object).
#[derive(Default, Clone, Debug)]
pub struct Counters(pub BTreeMap<String, u64>);

impl Counters {
    pub fn inc(&mut self, k: &str) {
        self.add(k, 1);
    }
    pub fn add(&mut self, k: &str, n: u64) {
        if let Some(v) = self.0.get_mut(k) {
            *v += n;
        } else {
            self.0.insert(k.to_string(), n);
        }
    }
    pub fn merge(&mut self, other: &Counters) {
        for (k, v) in &other.0 {
            self.add(k, *v);
        }
    }
    pub fn get(&self, k: &str) -> u64 {
        self.0.get(k).copied().unwrap_or(0)
    }
    pub fn to_json(&self) -> String {
        let mut s = String::from("{");
        let mut first = true;
        for (k, v) in &self.0 {
            if !first {
                s.push(',');
            }
            first = false;
            s.push_str(&json_str(k));
            s.push(':');
            s.push_str(&v.to_string());
        }
        s.push('}');
        s
    }
}

/// Parse `--key value` / `--flag` style arguments into a map (flags map to "1").
pub fn parse_args(args: &[String]) -> (Vec<String>, BTreeMap<String, String>) {
    let mut pos = vec![];
    let mut kv = BTreeMap::new();
    let mut i = 0;
    while i < args.len() {
        let a = &args[i];
        if let Some(k) = a.strip_prefix("--") {
            if i + 1 < args.len() && !args[i + 1].starts_with("--") {
                kv.insert(k.to_string(), args[i + 1].clone());
                i += 2;
            } else {
                kv.insert(k.to_string(), "1".to_string());
                i += 1;
            }
        } else {
            pos.push(a.clone());
            i += 1;
        }
    }
    (pos, kv)
}

#[cfg(test)]
mod tests {
    use super::*;
    #[test]
    fn rng_reference_vector() {
        // fixed vector shared with the JS / Python / C ports (sim/js/prng.mjs, check, shim.c)
        let mut r = Rng::new(20261002);
        let v: Vec<u32> = (0..4).map(|_| r.next_u32()).collect();
        println!("{:?}", v);
        let mut r2 = Rng::new(20261002);
        let v2: Vec<u32> = (0..4).map(|_| r2.next_u32()).collect();
        assert_eq!(v, v2);
    }
    #[test]
    fn ddmin_minimises() {
        let items: Vec<u32> = (0..50).collect();
        let mut budget = 1000;
        let r = ddmin(&items, &mut budget, &mut |c| c.contains(&7) && c.contains(&33));
        assert_eq!(r, vec![7, 33]);
    }
}

#[cfg(test)]
mod port_vector {
    #[test]
    fn print_vector() {
        let mut r = super::Rng::derive(20261002, "own-cpp", 7);
        let v: Vec<u32> = (0..3).map(|_| r.next_u32()).collect();
        println!("VECTOR {:?}", v);
    }
}
