//! Tracked payload types for the L1 ownership simulation (DESIGN.md §3.2).

use simcore::ledger;
use std::mem::ManuallyDrop;

/// Payload behaviour the slots are generic over. Every leaf payload except `()` carries one id
/// taken from the ledger's sequential allocator, so the model can predict exactly which numbers a
/// view must show (oracle O5).
pub trait Pl: Clone + 'static {
    fn make() -> Self;
    /// (id, tracked) of every leaf reachable through safe access
    fn idents(&self, out: &mut Vec<(u32, bool)>);
    /// internal consistency of the payload (heap part agrees with inline part)
    fn intact(&self) -> bool {
        true
    }
}

/// Box-backed token: a double drop would be a real double free, a premature drop a real
/// use-after-free. The ledger is consulted first, so natively a detected double drop does not
/// also corrupt the allocator; under Miri both layers are active.
pub struct Heavy {
    pub id: u32,
    b: ManuallyDrop<Box<u32>>,
}

impl Heavy {
    pub fn new() -> Heavy {
        let id = ledger::alloc_id();
        ledger::register(id);
        Heavy { id, b: ManuallyDrop::new(Box::new(id ^ 0x5a5a_0000)) }
    }
}

impl Drop for Heavy {
    fn drop(&mut self) {
        if ledger::on_drop(self.id) {
            unsafe { ManuallyDrop::drop(&mut self.b) }
        }
    }
}

impl Clone for Heavy {
    fn clone(&self) -> Heavy {
        if ledger::clone_fault_fires() {
            panic!("injected fault: Clone::clone panics");
        }
        Heavy::new()
    }
}

impl Pl for Heavy {
    fn make() -> Self {
        Heavy::new()
    }
    fn idents(&self, out: &mut Vec<(u32, bool)>) {
        out.push((self.id, true));
    }
    fn intact(&self) -> bool {
        **self.b == self.id ^ 0x5a5a_0000
    }
}

/// Inline token: drop glue but no heap.
pub struct Light {
    pub id: u32,
}

impl Drop for Light {
    fn drop(&mut self) {
        ledger::on_drop(self.id);
    }
}

impl Clone for Light {
    fn clone(&self) -> Light {
        if ledger::clone_fault_fires() {
            panic!("injected fault: Clone::clone panics");
        }
        Light::make()
    }
}

impl Pl for Light {
    fn make() -> Self {
        let id = ledger::alloc_id();
        ledger::register(id);
        Light { id }
    }
    fn idents(&self, out: &mut Vec<(u32, bool)>) {
        out.push((self.id, true));
    }
}

const WORD_TAG: u64 = 0xABCD_0000_0000_0000;

impl Pl for u64 {
    fn make() -> Self {
        WORD_TAG | ledger::alloc_id() as u64
    }
    fn idents(&self, out: &mut Vec<(u32, bool)>) {
        out.push(((*self & 0xffff_ffff) as u32, false));
    }
    fn intact(&self) -> bool {
        *self & 0xffff_0000_0000_0000 == WORD_TAG
    }
}

impl Pl for u16 {
    fn make() -> Self {
        ledger::alloc_id() as u16
    }
    fn idents(&self, out: &mut Vec<(u32, bool)>) {
        out.push((*self as u32, false));
    }
}

impl Pl for u8 {
    fn make() -> Self {
        ledger::alloc_id() as u8
    }
    fn idents(&self, out: &mut Vec<(u32, bool)>) {
        out.push((*self as u32, false));
    }
}

/// Zero-sized token with drop glue: owns no memory, but each element must still be dropped once.
pub struct ZTok;

impl Drop for ZTok {
    fn drop(&mut self) {
        ledger::zst_dropped();
    }
}

impl Clone for ZTok {
    fn clone(&self) -> ZTok {
        ZTok::make()
    }
}

impl Pl for ZTok {
    fn make() -> Self {
        ledger::zst_created();
        ZTok
    }
    fn idents(&self, out: &mut Vec<(u32, bool)>) {
        out.push((0, false));
    }
}

impl Pl for () {
    fn make() -> Self {}
    fn idents(&self, _out: &mut Vec<(u32, bool)>) {}
}

/// Nested payload: a boxed slice of two heap tokens (drop glue + own allocation).
impl Pl for Box<[Heavy]> {
    fn make() -> Self {
        vec![Heavy::new(), Heavy::new()].into_boxed_slice()
    }
    fn idents(&self, out: &mut Vec<(u32, bool)>) {
        for h in self.iter() {
            h.idents(out);
        }
    }
    fn intact(&self) -> bool {
        self.iter().all(|h| h.intact())
    }
}

/// Target of `into_converted_option::<U>()`: any `U: From<T>`.
#[derive(Clone)]
pub struct Wrapped<P>(pub P);

impl<P> From<P> for Wrapped<P> {
    fn from(p: P) -> Self {
        Wrapped(p)
    }
}

impl<P: Pl> Pl for Wrapped<P> {
    fn make() -> Self {
        Wrapped(P::make())
    }
    fn idents(&self, out: &mut Vec<(u32, bool)>) {
        self.0.idents(out)
    }
    fn intact(&self) -> bool {
        self.0.intact()
    }
}
