//! Layer L1 of `own-sim` (DESIGN.md §3.2): ownership histories over the runtime's FFI-safe owning
//! types in isolation, checked against the ledger model after every operation.

use crate::slots::{self, Build, CbData, Conv, SlotObj, Ty, ET, PT};
use simcore::ledger;
use simcore::runner::{Outcome, Sim, Violation};
use simcore::{ddmin, Rng};
use std::fmt::Write as _;
use std::panic::{catch_unwind, AssertUnwindSafe};

pub const NSLOTS: usize = 6;

/// runs whose callbacks carry handle cookies (decided by the run number alone, so that no PRNG draw is spent on it)
#[allow(non_snake_case)]
fn HANDLE_RUN(run: u64) -> bool {
    (run.wrapping_mul(0x9E37_79B9_7F4A_7C15) >> 61) < 3
}

#[derive(Clone, Debug, PartialEq, Eq)]
pub enum Op {
    Make { slot: usize, ty: Ty, arm: bool, n: usize, build: Build },
    /// `handle`: the foreign side's `data` cookie is a table index (the first one is 0, a null `data`), not a pointer
    MakeCb { slot: usize, dtor: bool, handle: bool },
    Conv { slot: usize, how: Conv },
    Clone { src: usize, dst: usize, panic_at: Option<u32> },
    Peek { slot: usize },
    Mutate { slot: usize },
    Roundtrip { slot: usize },
    Call { slot: usize, k: u32 },
    Drop { slot: usize },
    Swap { a: usize, b: usize },
}

#[derive(Clone, Debug, PartialEq, Eq)]
pub struct Trace {
    pub seed: u64,
    pub run: u64,
    pub ops: Vec<Op>,
}

// ---- text ---------------------------------------------------------------------------------------

fn pt_s(p: PT) -> &'static str {
    match p {
        PT::Heavy => "heavy",
        PT::Light => "light",
        PT::Word => "word",
        PT::Unit => "unit",
        PT::Pair => "pair",
    }
}
fn pt_p(s: &str) -> Option<PT> {
    Some(match s {
        "heavy" => PT::Heavy,
        "light" => PT::Light,
        "word" => PT::Word,
        "unit" => PT::Unit,
        "pair" => PT::Pair,
        _ => return None,
    })
}
fn et_s(e: ET) -> &'static str {
    match e {
        ET::Heavy => "heavy",
        ET::Light => "light",
        ET::Word => "word",
        ET::U16 => "u16",
        ET::Byte => "byte",
        ET::Unit => "unit",
        ET::Zst => "zst",
    }
}
fn et_p(s: &str) -> Option<ET> {
    Some(match s {
        "heavy" => ET::Heavy,
        "light" => ET::Light,
        "word" => ET::Word,
        "u16" => ET::U16,
        "byte" => ET::Byte,
        "unit" => ET::Unit,
        "zst" => ET::Zst,
        _ => return None,
    })
}
pub fn ty_s(t: Ty) -> String {
    match t {
        Ty::DRes(p, q) => format!("dres:{}:{}", pt_s(p), pt_s(q)),
        Ty::SRes(p, q) => format!("sres:{}:{}", pt_s(p), pt_s(q)),
        Ty::DOpt(p) => format!("dopt:{}", pt_s(p)),
        Ty::SOpt(p) => format!("sopt:{}", pt_s(p)),
        Ty::SOptW(p) => format!("soptw:{}", pt_s(p)),
        Ty::OSlice(e) => format!("oslice:{}", et_s(e)),
        Ty::BSlice(e) => format!("bslice:{}", et_s(e)),
        Ty::OStr8 => "ostr8".into(),
        Ty::BStr => "bstr".into(),
        Ty::Cb => "cb".into(),
    }
}
fn ty_p(s: &str) -> Option<Ty> {
    let parts: Vec<&str> = s.split(':').collect();
    Some(match parts[0] {
        "dres" => Ty::DRes(pt_p(parts.get(1)?)?, pt_p(parts.get(2)?)?),
        "sres" => Ty::SRes(pt_p(parts.get(1)?)?, pt_p(parts.get(2)?)?),
        "dopt" => Ty::DOpt(pt_p(parts.get(1)?)?),
        "sopt" => Ty::SOpt(pt_p(parts.get(1)?)?),
        "oslice" => Ty::OSlice(et_p(parts.get(1)?)?),
        "bslice" => Ty::BSlice(et_p(parts.get(1)?)?),
        "ostr8" => Ty::OStr8,
        "bstr" => Ty::BStr,
        _ => return None,
    })
}
fn conv_s(c: Conv) -> &'static str {
    match c {
        Conv::Std => "std",
        Conv::Ffi => "ffi",
        Conv::IntoOption => "into_option",
        Conv::IntoConverted => "into_converted_option",
    }
}
fn build_s(b: Build) -> &'static str {
    match b {
        Build::Rust => "rust",
        Build::CNull => "c_null",
        Build::CAlloc => "c_alloc",
    }
}

pub fn op_text(op: &Op) -> String {
    match op {
        Op::Make { slot, ty, arm, n, build } => format!("make {} {} {} {} {}", slot, ty_s(*ty), if *arm { "ok" } else { "err" }, n, build_s(*build)),
        Op::MakeCb { slot, dtor, handle } => format!("make_cb {} {}{}", slot, if *dtor { "dtor" } else { "nodtor" }, if *handle { " handle" } else { "" }),
        Op::Conv { slot, how } => format!("conv {} {}", slot, conv_s(*how)),
        Op::Clone { src, dst, panic_at } => match panic_at {
            Some(k) => format!("clone {} {} panic_at {}", src, dst, k),
            None => format!("clone {} {}", src, dst),
        },
        Op::Peek { slot } => format!("peek {}", slot),
        Op::Mutate { slot } => format!("mutate {}", slot),
        Op::Roundtrip { slot } => format!("roundtrip {}", slot),
        Op::Call { slot, k } => format!("call {} {}", slot, k),
        Op::Drop { slot } => format!("drop {}", slot),
        Op::Swap { a, b } => format!("swap {} {}", a, b),
    }
}

fn parse_op(toks: &[&str]) -> Result<Op, String> {
    let us = |i: usize| -> Result<usize, String> { toks.get(i).and_then(|x| x.parse::<usize>().ok()).filter(|v| *v < NSLOTS).ok_or_else(|| format!("bad slot operand {} in {:?}", i, toks)) };
    Ok(match toks[0] {
        "make" => Op::Make {
            slot: us(1)?,
            ty: ty_p(toks.get(2).copied().unwrap_or("")).ok_or("bad type")?,
            arm: toks.get(3) == Some(&"ok"),
            n: toks.get(4).and_then(|x| x.parse().ok()).ok_or("bad n")?,
            build: match toks.get(5).copied() {
                Some("rust") => Build::Rust,
                Some("c_null") => Build::CNull,
                Some("c_alloc") => Build::CAlloc,
                _ => return Err("bad build".into()),
            },
        },
        "make_cb" => Op::MakeCb { slot: us(1)?, dtor: toks.get(2) == Some(&"dtor"), handle: toks.get(3) == Some(&"handle") },
        "conv" => Op::Conv {
            slot: us(1)?,
            how: match toks.get(2).copied() {
                Some("std") => Conv::Std,
                Some("ffi") => Conv::Ffi,
                Some("into_option") => Conv::IntoOption,
                Some("into_converted_option") => Conv::IntoConverted,
                _ => return Err("bad conv".into()),
            },
        },
        "clone" => Op::Clone { src: us(1)?, dst: us(2)?, panic_at: if toks.get(3) == Some(&"panic_at") { Some(toks.get(4).and_then(|x| x.parse().ok()).ok_or("bad k")?) } else { None } },
        "peek" => Op::Peek { slot: us(1)? },
        "mutate" => Op::Mutate { slot: us(1)? },
        "roundtrip" => Op::Roundtrip { slot: us(1)? },
        "call" => Op::Call { slot: us(1)?, k: toks.get(2).and_then(|x| x.parse().ok()).ok_or("bad k")? },
        "drop" => Op::Drop { slot: us(1)? },
        "swap" => Op::Swap { a: us(1)?, b: us(2)? },
        other => return Err(format!("unknown op {}", other)),
    })
}

// ---- model --------------------------------------------------------------------------------------

#[derive(Clone, Debug)]
struct MSlot {
    ty: Ty,
    arm: bool,
    ids: Vec<(u32, bool)>,
    /// Cb only: id of the foreign data token and whether the callback owns it
    cb: Option<(u32, bool, u32)>, // (data id, has destructor, calls so far)
}

fn leaves(p: PT, next: &mut u32) -> Vec<(u32, bool)> {
    match p {
        PT::Heavy | PT::Light => {
            let id = *next;
            *next += 1;
            vec![(id, true)]
        }
        PT::Word => {
            let id = *next;
            *next += 1;
            vec![(id, false)]
        }
        PT::Unit => vec![],
        PT::Pair => {
            let id = *next;
            *next += 2;
            vec![(id, true), (id + 1, true)]
        }
    }
}

fn elem(e: ET, next: &mut u32) -> Vec<(u32, bool)> {
    match e {
        ET::Heavy | ET::Light => {
            let id = *next;
            *next += 1;
            vec![(id, true)]
        }
        ET::Word => {
            let id = *next;
            *next += 1;
            vec![(id, false)]
        }
        ET::U16 => {
            let id = *next;
            *next += 1;
            vec![(id & 0xffff, false)]
        }
        ET::Byte => {
            let id = *next;
            *next += 1;
            vec![(id & 0xff, false)]
        }
        ET::Unit => vec![],
        ET::Zst => vec![(0, false)],
    }
}

fn model_make(ty: Ty, arm: bool, n: usize, build: Build, next: &mut u32) -> MSlot {
    let ids = match ty {
        Ty::DRes(p, q) | Ty::SRes(p, q) => leaves(if arm { p } else { q }, next),
        Ty::DOpt(p) | Ty::SOpt(p) | Ty::SOptW(p) => {
            if arm {
                leaves(p, next)
            } else {
                vec![]
            }
        }
        Ty::OSlice(e) | Ty::BSlice(e) => {
            let n = if build == Build::CNull { 0 } else { n };
            (0..n).flat_map(|_| elem(e, next)).collect()
        }
        Ty::OStr8 | Ty::BStr => {
            let n = if build == Build::CNull { 0 } else { n };
            (0..n)
                .map(|_| {
                    let id = *next;
                    *next += 1;
                    (slots::str_byte(id) as u32, false)
                })
                .collect()
        }
        Ty::Cb => vec![],
    };
    MSlot { ty, arm, ids, cb: None }
}

fn ty_class(t: Ty) -> u32 {
    match t {
        Ty::DRes(..) => 0,
        Ty::SRes(..) => 1,
        Ty::DOpt(_) => 2,
        Ty::SOpt(_) => 3,
        Ty::SOptW(_) => 4,
        Ty::OSlice(_) => 5,
        Ty::BSlice(_) => 6,
        Ty::OStr8 => 7,
        Ty::BStr => 8,
        Ty::Cb => 9,
    }
}

fn payload_class(t: Ty, arm: bool) -> u32 {
    match t {
        Ty::DRes(p, q) | Ty::SRes(p, q) => (if arm { p } else { q }) as u32,
        Ty::DOpt(p) | Ty::SOpt(p) | Ty::SOptW(p) => {
            if arm {
                p as u32
            } else {
                7
            }
        }
        Ty::OSlice(e) | Ty::BSlice(e) => e as u32,
        _ => 6,
    }
}

// ---- executor -----------------------------------------------------------------------------------

pub struct L1;

struct Ctr {
    v: Vec<(&'static str, u64)>,
}
impl Ctr {
    fn inc(&mut self, k: &'static str) {
        for e in self.v.iter_mut() {
            if e.0 == k {
                e.1 += 1;
                return;
            }
        }
        self.v.push((k, 1));
    }
}

fn panic_msg(p: &Box<dyn std::any::Any + Send>) -> String {
    if let Some(s) = p.downcast_ref::<&str>() {
        s.to_string()
    } else if let Some(s) = p.downcast_ref::<String>() {
        s.clone()
    } else {
        "?".into()
    }
}

pub fn execute(t: &Trace) -> Outcome {
    ledger::reset();
    slots::reset_cookies();
    let careful = simcore::faultalloc::careful() && !cfg!(miri);
    if careful {
        simcore::faultalloc::track(true);
    }
    let mut out = Outcome::default();
    let mut ctr = Ctr { v: vec![] };
    let _ = writeln!(out.log, "seed={} run={} engine=own-l1", t.seed, t.run);
    let mut slots: Vec<Option<Box<dyn SlotObj>>> = (0..NSLOTS).map(|_| None).collect();
    let mut model: Vec<Option<MSlot>> = (0..NSLOTS).map(|_| None).collect();
    // callback data the foreign side still owns (callbacks built without destructor)
    let mut foreign: Vec<(u32, *mut CbData)> = vec![];
    let mut next: u32 = 1;
    let mut viol: Option<Violation> = None;
    let mut prev_kind = 0u32;
    let mut did_something = false;

    'ops: for (step, op) in t.ops.iter().enumerate() {
        let mut touched: Vec<usize> = vec![];
        let mut kind = 0u32;
        let mut cls = 15u32;
        let mut pcls = 0u32;
        let mut skipped = false;
        let _ = write!(out.log, "{} {} ", step, op_text(op));
        let res = catch_unwind(AssertUnwindSafe(|| -> Result<(), Violation> {
            match op {
                Op::Make { slot, ty, arm, n, build } => {
                    kind = 1;
                    if slots[*slot].is_some() {
                        skipped = true;
                        return Ok(());
                    }
                    match slots::make_slot(*ty, *arm, *n, *build) {
                        None => skipped = true,
                        Some(s) => {
                            slots[*slot] = Some(s);
                            model[*slot] = Some(model_make(*ty, *arm, *n, *build, &mut next));
                            touched.push(*slot);
                            cls = ty_class(*ty);
                            pcls = payload_class(*ty, *arm);
                            if !*arm && matches!(ty, Ty::DRes(..) | Ty::SRes(..)) {
                                ctr.inc("fault_arm_err_fired");
                            }
                            if !*arm && matches!(ty, Ty::DOpt(..) | Ty::SOpt(..)) {
                                ctr.inc("fault_arm_none_fired");
                            }
                            match build {
                                Build::CNull => ctr.inc("fault_c_null_zero_slice_fired"),
                                Build::CAlloc => ctr.inc("fault_c_allocated_slice_fired"),
                                Build::Rust => {
                                    if *n == 0 && matches!(ty, Ty::OSlice(_) | Ty::BSlice(_) | Ty::OStr8 | Ty::BStr) {
                                        ctr.inc("fault_zero_len_boxed_slice_fired");
                                    }
                                }
                            }
                            if matches!(ty, Ty::OSlice(ET::Unit) | Ty::BSlice(ET::Unit) | Ty::OSlice(ET::Zst) | Ty::BSlice(ET::Zst)) {
                                ctr.inc("fault_zst_element_slice_fired");
                            }
                        }
                    }
                }
                Op::MakeCb { slot, dtor, handle } => {
                    kind = 2;
                    if slots[*slot].is_some() {
                        skipped = true;
                        return Ok(());
                    }
                    let (cb, data) = slots::make_cb_cookie(*dtor, *handle);
                    if *handle {
                        ctr.inc(if cb.cb.data.is_null() { "fault_callback_cookie_handle_zero_fired" } else { "fault_callback_cookie_handle_fired" });
                    }
                    let id = next;
                    next += 1;
                    if !*dtor {
                        foreign.push((id, data));
                        ctr.inc("fault_callback_destructor_null_fired");
                    }
                    slots[*slot] = Some(Box::new(cb));
                    model[*slot] = Some(MSlot { ty: Ty::Cb, arm: true, ids: if *dtor { vec![(id, true)] } else { vec![] }, cb: Some((id, *dtor, 0)) });
                    touched.push(*slot);
                    cls = 9;
                }
                Op::Conv { slot, how } => {
                    kind = 3 + *how as u32;
                    let m = match &model[*slot] {
                        Some(m) => m.clone(),
                        None => {
                            skipped = true;
                            return Ok(());
                        }
                    };
                    let nt = match m.ty.after(*how) {
                        Some(nt) => nt,
                        None => {
                            skipped = true;
                            return Ok(());
                        }
                    };
                    cls = ty_class(m.ty);
                    pcls = payload_class(m.ty, m.arm);
                    let s = slots[*slot].take().unwrap();
                    // the model moves first: if the conversion drops something it must not, the
                    // ledger comparison below sees it at this very step
                    model[*slot] = Some(MSlot { ty: nt, ..m });
                    slots[*slot] = Some(s.convert(*how));
                    touched.push(*slot);
                }
                Op::Clone { src, dst, panic_at } => {
                    kind = 8;
                    let m = match &model[*src] {
                        Some(m) if m.ty.clonable() && model[*dst].is_none() && src != dst => m.clone(),
                        _ => {
                            skipped = true;
                            return Ok(());
                        }
                    };
                    cls = ty_class(m.ty);
                    pcls = payload_class(m.ty, m.arm);
                    let tracked = m.ids.iter().filter(|x| x.1).count() as u32;
                    let expect_panic = matches!(panic_at, Some(k) if *k < tracked);
                    ledger::arm_clone_fault(*panic_at);
                    let r = catch_unwind(AssertUnwindSafe(|| slots[*src].as_ref().unwrap().try_clone()));
                    ledger::arm_clone_fault(None);
                    match r {
                        Ok(Some(c)) => {
                            if expect_panic {
                                // fewer tracked clones happened than the value has tracked leaves
                                return Err(Violation { oracle: "O5-value-integrity".into(), step, detail: "clone did not clone every payload".into() });
                            }
                            let ids = m.ids.iter().map(|(id, tr)| if *tr { let n = next; next += 1; (n, true) } else { (*id, false) }).collect();
                            model[*dst] = Some(MSlot { ty: m.ty, arm: m.arm, ids, cb: None });
                            slots[*dst] = Some(c);
                            touched.push(*dst);
                            touched.push(*src);
                        }
                        Ok(None) => skipped = true,
                        Err(p) => {
                            if !expect_panic {
                                return Err(Violation { oracle: "PANIC".into(), step, detail: format!("clone panicked: {}", panic_msg(&p)) });
                            }
                            ctr.inc("fault_clone_panics_fired");
                            next += panic_at.unwrap();
                            touched.push(*src);
                        }
                    }
                }
                Op::Peek { slot } => {
                    kind = 9;
                    if model[*slot].is_none() {
                        skipped = true;
                        return Ok(());
                    }
                    cls = ty_class(model[*slot].as_ref().unwrap().ty);
                    touched.push(*slot);
                }
                Op::Mutate { slot } => {
                    kind = 10;
                    match &mut model[*slot] {
                        Some(m) if m.ty.mutable() => {
                            cls = ty_class(m.ty);
                            m.ids.reverse();
                            slots[*slot].as_mut().unwrap().mutate();
                            touched.push(*slot);
                        }
                        _ => skipped = true,
                    }
                }
                Op::Roundtrip { slot } => {
                    kind = 11;
                    if model[*slot].is_none() {
                        skipped = true;
                        return Ok(());
                    }
                    cls = ty_class(model[*slot].as_ref().unwrap().ty);
                    let s = slots[*slot].take().unwrap();
                    slots[*slot] = Some(s.roundtrip());
                    touched.push(*slot);
                }
                Op::Call { slot, k } => {
                    kind = 12;
                    match &mut model[*slot] {
                        Some(MSlot { cb: Some((id, _, calls)), .. }) => {
                            cls = 9;
                            for i in 0..*k {
                                let got = slots[*slot].as_mut().unwrap().call(1000 + i);
                                if got != Some(1000 + i + *id) {
                                    return Err(Violation { oracle: "O5-value-integrity".into(), step, detail: format!("callback returned {:?}, expected {}", got, 1000 + i + *id) });
                                }
                                *calls += 1;
                            }
                        }
                        _ => skipped = true,
                    }
                }
                Op::Drop { slot } => {
                    kind = 13;
                    match model[*slot].take() {
                        Some(m) => {
                            cls = ty_class(m.ty);
                            pcls = payload_class(m.ty, m.arm);
                            if let Some((_, _, 0)) = m.cb {
                                ctr.inc("fault_callback_never_called_fired");
                            }
                            drop(slots[*slot].take());
                        }
                        None => skipped = true,
                    }
                }
                Op::Swap { a, b } => {
                    kind = 14;
                    slots.swap(*a, *b);
                    model.swap(*a, *b);
                }
            }
            Ok(())
        }));
        match res {
            Err(p) => {
                viol = Some(Violation { oracle: "PANIC".into(), step, detail: panic_msg(&p) });
                break 'ops;
            }
            Ok(Err(v)) => {
                viol = Some(v);
                break 'ops;
            }
            Ok(Ok(())) => {}
        }
        if skipped {
            ctr.inc("ops_skipped");
            let _ = writeln!(out.log, "skipped");
            continue;
        }
        did_something = true;
        ctr.inc("ops_executed");
        out.transitions.push((prev_kind << 16) | (kind << 8) | (cls << 4) | pcls);
        prev_kind = kind;
        if careful && simcore::faultalloc::double_frees() > 0 {
            viol = Some(Violation { oracle: "O4-double-free".into(), step, detail: "a heap block was released twice during this operation".into() });
            break 'ops;
        }
        if let Some(v) = check_after(step, &model, &foreign) {
            viol = Some(v);
            break 'ops;
        }
        // O5: what a safe reader sees through every touched slot
        for s in touched {
            if let (Some(m), Some(real)) = (&model[s], &slots[s]) {
                let seen = real.idents();
                if seen != m.ids {
                    viol = Some(Violation { oracle: "O5-value-integrity".into(), step, detail: format!("slot {} ({}) shows payloads {:?}, expected {:?}", s, ty_s(m.ty), seen, m.ids) });
                    break 'ops;
                }
                if !real.intact() {
                    viol = Some(Violation { oracle: "O5-value-integrity".into(), step, detail: format!("slot {} ({}) payload is corrupted", s, ty_s(m.ty)) });
                    break 'ops;
                }
                if real.ty() != m.ty {
                    viol = Some(Violation { oracle: "HARNESS".into(), step, detail: "slot type diverged from model".into() });
                    break 'ops;
                }
            }
        }
        let _ = writeln!(out.log, "live={:?}", ledger::live());
    }

    // ---- end of history: the caller releases everything it still owns (O3)
    if viol.is_none() {
        let step = t.ops.len();
        let r = catch_unwind(AssertUnwindSafe(|| {
            for i in 0..NSLOTS {
                model[i] = None;
                drop(slots[i].take());
            }
        }));
        if let Err(p) = r {
            viol = Some(Violation { oracle: "PANIC".into(), step, detail: format!("final drop: {}", panic_msg(&p)) });
        } else {
            // only the foreign-owned callback data may be left
            if let Some(v) = check_after(step, &model, &foreign) {
                viol = Some(v);
            } else {
                for (_, p) in foreign.drain(..) {
                    unsafe { slots::free_cb_data(p) };
                }
                let bad = ledger::take_bad();
                let live = ledger::live();
                if !bad.is_empty() {
                    viol = Some(Violation { oracle: "O1-exactly-once".into(), step, detail: bad[0].clone() });
                } else if !live.is_empty() {
                    viol = Some(Violation { oracle: "O3-leak".into(), step, detail: format!("payloads {:?} were never dropped", live) });
                }
            }
        }
        let _ = writeln!(out.log, "end live={:?} drops={}", ledger::live(), ledger::drops());
    } else {
        // leave no dangling state behind for the next trace on this thread: forget what is left
        // (after a violation the slots may own freed memory)
        for s in slots.drain(..) {
            std::mem::forget(s);
        }
    }
    if careful {
        if viol.is_none() && simcore::faultalloc::double_frees() > 0 {
            viol = Some(Violation { oracle: "O4-double-free".into(), step: t.ops.len(), detail: "a heap block was released twice while the remaining values were dropped".into() });
        }
        simcore::faultalloc::track(false);
    }
    if let Some(v) = &viol {
        let _ = writeln!(out.log, "VIOLATION oracle={} step={} {}", v.oracle, v.step, v.detail);
    }
    out.violation = viol;
    out.counters = ctr.v;
    out.nontrivial = did_something && t.ops.iter().any(|o| matches!(o, Op::Conv { .. } | Op::Clone { .. } | Op::Roundtrip { .. } | Op::Call { .. } | Op::Mutate { .. }));
    out
}

fn check_after(step: usize, model: &[Option<MSlot>], foreign: &[(u32, *mut CbData)]) -> Option<Violation> {
    let bad = ledger::take_bad();
    if !bad.is_empty() {
        return Some(Violation { oracle: "O1-exactly-once".into(), step, detail: bad[0].clone() });
    }
    let mut expect: Vec<u32> = model.iter().flatten().flat_map(|m| m.ids.iter().filter(|x| x.1).map(|x| x.0)).collect();
    expect.extend(foreign.iter().map(|f| f.0));
    expect.sort_unstable();
    // zero-sized tracked elements are counted, not identified
    let zst_expect: i64 = model.iter().flatten().filter(|m| matches!(m.ty, Ty::OSlice(ET::Zst) | Ty::BSlice(ET::Zst))).map(|m| m.ids.len() as i64).sum();
    if ledger::zst_live() != zst_expect {
        let (o, d) = if ledger::zst_live() < zst_expect { ("O2-premature-drop", "were dropped although a live slice still owns them") } else { ("O2-leak", "are alive although no slice owns them any more (their destructors never ran)") };
        return Some(Violation { oracle: o.into(), step, detail: format!("{} zero-sized elements with drop glue expected alive, {} are: some {}", zst_expect, ledger::zst_live(), d) });
    }
    let live = ledger::live();
    if live != expect {
        let missing: Vec<u32> = expect.iter().filter(|x| !live.contains(x)).copied().collect();
        let extra: Vec<u32> = live.iter().filter(|x| !expect.contains(x)).copied().collect();
        let detail = if !missing.is_empty() { format!("payloads {:?} are owned by a live value but were already dropped", missing) } else { format!("payloads {:?} are alive although nothing owns them any more (leak)", extra) };
        return Some(Violation { oracle: if !missing.is_empty() { "O2-premature-drop".into() } else { "O2-leak".into() }, step, detail });
    }
    None
}

// ---- generator ----------------------------------------------------------------------------------

fn gen_pt(rng: &mut Rng, pool: &[PT]) -> PT {
    *rng.pick(pool)
}

pub fn gen_trace(seed: u64, run: u64, _miri: bool) -> Trace {
    let mut rng = Rng::derive(seed, "own-l1", run);
    // swarm configuration
    let max_ops = *rng.pick(&[2u32, 3, 4, 5, 6, 8, 8, 12, 20, 40]);
    let all_pt = [PT::Heavy, PT::Light, PT::Word, PT::Unit, PT::Pair];
    let pt_pool: Vec<PT> = {
        let mut v: Vec<PT> = all_pt.iter().copied().filter(|_| rng.chance(1, 2)).collect();
        if v.is_empty() {
            v.push(PT::Heavy);
        }
        v
    };
    let all_et = [ET::Heavy, ET::Light, ET::Word, ET::U16, ET::Byte, ET::Unit, ET::Zst];
    let et_pool: Vec<ET> = {
        let mut v: Vec<ET> = all_et.iter().copied().filter(|_| rng.chance(1, 2)).collect();
        if v.is_empty() {
            v.push(ET::Heavy);
        }
        v
    };
    let fam_enabled: Vec<u32> = {
        let mut v: Vec<u32> = (0..5).filter(|_| rng.chance(3, 5)).collect();
        if v.is_empty() {
            v.push(rng.below(5));
        }
        v
    };
    let err_arm_rate = *rng.pick(&[0u32, 4, 8, 12]);
    let clone_fault_rate = *rng.pick(&[0u32, 0, 4, 10]);
    let c_build_rate = *rng.pick(&[0u32, 4, 8]);
    let drop_rate = *rng.pick(&[1u32, 2, 4]);
    let nslots = 1 + rng.below(NSLOTS as u32) as usize;

    let nops = 1 + rng.below(max_ops);
    let mut tys: Vec<Option<Ty>> = vec![None; NSLOTS];
    let mut ops = vec![];
    for _ in 0..nops {
        let slot = rng.below(nslots as u32) as usize;
        match tys[slot] {
            None => {
                let fam = *rng.pick(&fam_enabled);
                let arm = rng.below(16) >= err_arm_rate;
                match fam {
                    0 => {
                        let ty = if rng.chance(1, 2) { Ty::DRes(gen_pt(&mut rng, &pt_pool), gen_pt(&mut rng, &pt_pool)) } else { Ty::SRes(gen_pt(&mut rng, &pt_pool), gen_pt(&mut rng, &pt_pool)) };
                        ops.push(Op::Make { slot, ty, arm, n: 0, build: Build::Rust });
                        tys[slot] = Some(ty);
                    }
                    1 => {
                        let p = gen_pt(&mut rng, &pt_pool);
                        let ty = if rng.chance(1, 2) { Ty::DOpt(p) } else { Ty::SOpt(p) };
                        ops.push(Op::Make { slot, ty, arm, n: 0, build: Build::Rust });
                        tys[slot] = Some(ty);
                    }
                    2 => {
                        let e = *rng.pick(&et_pool);
                        let ffi = rng.chance(1, 2);
                        let ty = if ffi { Ty::OSlice(e) } else { Ty::BSlice(e) };
                        let mut n = *rng.pick(&[0usize, 0, 1, 2, 3, 5]);
                        let mut build = Build::Rust;
                        if ffi && rng.below(16) < c_build_rate {
                            if rng.chance(1, 2) {
                                build = Build::CNull;
                                n = 0;
                            } else if matches!(e, ET::Word | ET::U16 | ET::Byte) {
                                build = Build::CAlloc;
                                n = n.max(1);
                            }
                        }
                        ops.push(Op::Make { slot, ty, arm: true, n, build });
                        tys[slot] = Some(ty);
                    }
                    3 => {
                        let ffi = rng.chance(1, 2);
                        let ty = if ffi { Ty::OStr8 } else { Ty::BStr };
                        let mut n = *rng.pick(&[0usize, 0, 1, 4, 9]);
                        let mut build = Build::Rust;
                        if ffi && rng.below(16) < c_build_rate {
                            if rng.chance(1, 2) {
                                build = Build::CNull;
                                n = 0;
                            } else {
                                build = Build::CAlloc;
                                n = n.max(1);
                            }
                        }
                        ops.push(Op::Make { slot, ty, arm: true, n, build });
                        tys[slot] = Some(ty);
                    }
                    _ => {
                        // (a property of the run, not a PRNG draw: three runs in eight model a foreign side with handle cookies)
                        ops.push(Op::MakeCb { slot, dtor: rng.chance(3, 4), handle: HANDLE_RUN(run) });
                        tys[slot] = Some(Ty::Cb);
                    }
                }
            }
            Some(ty) => {
                let r = rng.below(16);
                if r < drop_rate {
                    ops.push(Op::Drop { slot });
                    tys[slot] = None;
                } else if r < drop_rate + 6 {
                    // conversion (the interesting family): choose an applicable one when possible
                    let cands: Vec<Conv> = [Conv::Std, Conv::Ffi, Conv::IntoOption, Conv::IntoConverted].iter().copied().filter(|c| ty.after(*c).is_some()).collect();
                    if cands.is_empty() {
                        if ty == Ty::Cb {
                            ops.push(Op::Call { slot, k: rng.below(4) });
                        } else {
                            ops.push(Op::Peek { slot });
                        }
                    } else {
                        let how = *rng.pick(&cands);
                        ops.push(Op::Conv { slot, how });
                        tys[slot] = ty.after(how);
                    }
                } else if r < drop_rate + 8 {
                    let dst = rng.below(nslots as u32) as usize;
                    let panic_at = if rng.below(16) < clone_fault_rate { Some(rng.below(3)) } else { None };
                    ops.push(Op::Clone { src: slot, dst, panic_at });
                    if ty.clonable() && tys[dst].is_none() && dst != slot {
                        // may or may not materialise (injected panic); the executor's model decides
                        let tracked_possible = true;
                        if panic_at.is_none() || !tracked_possible {
                            tys[dst] = Some(ty);
                        } else {
                            // unknown: resolve by assuming success for Word/Unit payloads is not
                            // possible here, so mark the slot as "maybe": later ops on it are either
                            // executed or skipped by the executor
                            tys[dst] = Some(ty);
                        }
                    }
                } else if r < drop_rate + 9 {
                    ops.push(Op::Roundtrip { slot });
                } else if r < drop_rate + 10 {
                    ops.push(Op::Mutate { slot });
                } else if r < drop_rate + 11 {
                    let b = rng.below(nslots as u32) as usize;
                    ops.push(Op::Swap { a: slot, b });
                    tys.swap(slot, b);
                } else if ty == Ty::Cb {
                    ops.push(Op::Call { slot, k: 1 + rng.below(3) });
                } else {
                    ops.push(Op::Peek { slot });
                }
            }
        }
    }
    Trace { seed, run, ops }
}

// ---- Sim impl -----------------------------------------------------------------------------------

impl Sim for L1 {
    type Trace = Trace;
    fn prop(&self) -> &'static str {
        "C03"
    }
    fn name(&self) -> &'static str {
        "own-l1"
    }
    fn gen(&self, seed: u64, run: u64, miri: bool) -> Trace {
        gen_trace(seed, run, miri)
    }
    fn exec(&self, t: &Trace) -> Outcome {
        execute(t)
    }
    fn to_text(&self, t: &Trace) -> String {
        let mut s = String::from("# own-sim L1 trace v1\n");
        s.push_str(&format!("seed {} run {}\n", t.seed, t.run));
        for op in &t.ops {
            s.push_str("op ");
            s.push_str(&op_text(op));
            s.push('\n');
        }
        s
    }
    fn from_text(&self, text: &str) -> Result<Trace, String> {
        let mut t = Trace { seed: 0, run: 0, ops: vec![] };
        for line in text.lines() {
            let line = line.trim();
            if line.is_empty() || line.starts_with('#') {
                continue;
            }
            let toks: Vec<&str> = line.split_whitespace().collect();
            match toks[0] {
                "seed" => {
                    t.seed = toks.get(1).and_then(|x| x.parse().ok()).ok_or("bad seed")?;
                    t.run = toks.get(3).and_then(|x| x.parse().ok()).unwrap_or(0);
                }
                "op" => t.ops.push(parse_op(&toks[1..])?),
                other => return Err(format!("unknown line {}", other)),
            }
        }
        Ok(t)
    }
    fn shape(&self, t: &Trace) -> String {
        let mut s = String::new();
        for op in &t.ops {
            match op {
                Op::Make { ty, arm, n, build, .. } => s.push_str(&format!("M{}{}{}{:?};", ty_s(*ty), *arm as u8, (*n).min(2), build)),
                Op::MakeCb { dtor, handle, .. } => s.push_str(&format!("B{}{};", *dtor as u8, if *handle { "h" } else { "" })),
                Op::Conv { how, slot } => s.push_str(&format!("C{}{};", *how as u8, slot)),
                Op::Clone { panic_at, .. } => s.push_str(&format!("L{:?};", panic_at)),
                Op::Peek { .. } => s.push_str("P;"),
                Op::Mutate { .. } => s.push_str("U;"),
                Op::Roundtrip { .. } => s.push_str("R;"),
                Op::Call { .. } => s.push_str("K;"),
                Op::Drop { slot } => s.push_str(&format!("D{};", slot)),
                Op::Swap { .. } => s.push_str("S;"),
            }
        }
        s
    }
    fn ids(&self, t: &Trace) -> (u64, u64) {
        (t.seed, t.run)
    }
    fn minimise(&self, t: &Trace, still_fails: &mut dyn FnMut(&Trace) -> bool) -> Trace {
        let mut budget = 2000usize;
        let base = t.clone();
        let ops = ddmin(&t.ops, &mut budget, &mut |cand: &[Op]| {
            let mut c = base.clone();
            c.ops = cand.to_vec();
            still_fails(&c)
        });
        let mut cur = Trace { ops, ..t.clone() };
        // simplify arguments: shorter slices, no injected clone fault, plain Rust-built values
        for i in 0..cur.ops.len() {
            let mut cands: Vec<Op> = vec![];
            match &cur.ops[i] {
                Op::Make { slot, ty, arm, n, build } => {
                    if *n > 1 {
                        cands.push(Op::Make { slot: *slot, ty: *ty, arm: *arm, n: 1, build: *build });
                    }
                    if *n > 0 && *build != Build::CAlloc {
                        cands.push(Op::Make { slot: *slot, ty: *ty, arm: *arm, n: 0, build: *build });
                    }
                }
                Op::Clone { src, dst, panic_at: Some(_) } => cands.push(Op::Clone { src: *src, dst: *dst, panic_at: None }),
                Op::Call { slot, k } if *k > 1 => cands.push(Op::Call { slot: *slot, k: 1 }),
                _ => {}
            }
            for c in cands {
                if budget == 0 {
                    break;
                }
                budget -= 1;
                let mut tt = cur.clone();
                tt.ops[i] = c;
                if still_fails(&tt) {
                    cur = tt;
                }
            }
        }
        cur
    }
}
