//! Slots of the L1 simulation: every FFI-safe owning type of `diplomat-runtime` wrapped behind one
//! object-safe interface, instantiated over the payload kinds of `payload.rs`.

use crate::payload::{Heavy, Light, Pl, Wrapped, ZTok};
use core::ffi::c_void;
use diplomat_runtime::{DiplomatCallback, DiplomatOption, DiplomatOwnedSlice, DiplomatOwnedUTF8StrSlice, DiplomatResult};
use simcore::ledger;
use std::mem::MaybeUninit;

#[derive(Clone, Copy, Debug, PartialEq, Eq, PartialOrd, Ord)]
pub enum PT {
    Heavy,
    Light,
    Word,
    Unit,
    Pair,
}

#[derive(Clone, Copy, Debug, PartialEq, Eq, PartialOrd, Ord)]
pub enum ET {
    Heavy,
    Light,
    Word,
    U16,
    Byte,
    Unit,
    /// zero-sized element *with* drop glue
    Zst,
}

#[derive(Clone, Copy, Debug, PartialEq, Eq, PartialOrd, Ord)]
pub enum Ty {
    DRes(PT, PT),
    SRes(PT, PT),
    DOpt(PT),
    SOpt(PT),
    /// `Option<Wrapped<P>>`, the result of `into_converted_option`
    SOptW(PT),
    OSlice(ET),
    BSlice(ET),
    OStr8,
    BStr,
    Cb,
}

#[derive(Clone, Copy, Debug, PartialEq, Eq, PartialOrd, Ord)]
pub enum Conv {
    /// `From<DiplomatResult> for Result`, `From<DiplomatOption> for Option`, `From<DiplomatOwnedSlice> for Box<[T]>`, `From<DiplomatOwnedUTF8StrSlice> for Box<str>`
    Std,
    /// the opposite `From` impls
    Ffi,
    /// `DiplomatOption::into_option`
    IntoOption,
    /// `DiplomatOption::into_converted_option`
    IntoConverted,
}

impl Ty {
    pub fn after(self, c: Conv) -> Option<Ty> {
        match (self, c) {
            (Ty::DRes(p, q), Conv::Std) => Some(Ty::SRes(p, q)),
            (Ty::SRes(p, q), Conv::Ffi) => Some(Ty::DRes(p, q)),
            (Ty::DOpt(p), Conv::Std) | (Ty::DOpt(p), Conv::IntoOption) => Some(Ty::SOpt(p)),
            (Ty::DOpt(p), Conv::IntoConverted) => Some(Ty::SOptW(p)),
            (Ty::SOpt(p), Conv::Ffi) => Some(Ty::DOpt(p)),
            (Ty::OSlice(e), Conv::Std) => Some(Ty::BSlice(e)),
            (Ty::BSlice(e), Conv::Ffi) => Some(Ty::OSlice(e)),
            (Ty::OStr8, Conv::Std) => Some(Ty::BStr),
            (Ty::BStr, Conv::Ffi) => Some(Ty::OStr8),
            _ => None,
        }
    }
    pub fn clonable(self) -> bool {
        matches!(self, Ty::DRes(..) | Ty::SRes(..) | Ty::DOpt(_) | Ty::SOpt(_) | Ty::SOptW(_) | Ty::BSlice(_) | Ty::BStr)
    }
    pub fn mutable(self) -> bool {
        matches!(self, Ty::OSlice(_) | Ty::BSlice(_))
    }
}

pub trait SlotObj {
    fn ty(&self) -> Ty;
    /// what a safe reader sees (as_ref / Deref)
    fn idents(&self) -> Vec<(u32, bool)>;
    fn intact(&self) -> bool;
    fn convert(self: Box<Self>, how: Conv) -> Box<dyn SlotObj>;
    fn try_clone(&self) -> Option<Box<dyn SlotObj>>;
    /// bitwise move, what passing the value over the C ABI does
    fn roundtrip(self: Box<Self>) -> Box<dyn SlotObj>;
    fn mutate(&mut self) {}
    fn call(&mut self, _arg: u32) -> Option<u32> {
        None
    }
}

fn bitwise<T>(v: T) -> T {
    let mu = MaybeUninit::new(v);
    let mut dst = MaybeUninit::<T>::uninit();
    unsafe {
        std::ptr::copy_nonoverlapping(mu.as_ptr() as *const u8, dst.as_mut_ptr() as *mut u8, std::mem::size_of::<T>());
        dst.assume_init()
    }
}

fn ids_of<P: Pl>(p: &P) -> Vec<(u32, bool)> {
    let mut v = vec![];
    p.idents(&mut v);
    v
}

pub trait HasPT {
    const PT: PT;
}
impl HasPT for Heavy {
    const PT: PT = PT::Heavy;
}
impl HasPT for Light {
    const PT: PT = PT::Light;
}
impl HasPT for u64 {
    const PT: PT = PT::Word;
}
impl HasPT for () {
    const PT: PT = PT::Unit;
}
impl HasPT for Box<[Heavy]> {
    const PT: PT = PT::Pair;
}

pub trait HasET {
    const ET: ET;
}
impl HasET for Heavy {
    const ET: ET = ET::Heavy;
}
impl HasET for Light {
    const ET: ET = ET::Light;
}
impl HasET for u64 {
    const ET: ET = ET::Word;
}
impl HasET for u16 {
    const ET: ET = ET::U16;
}
impl HasET for u8 {
    const ET: ET = ET::Byte;
}
impl HasET for () {
    const ET: ET = ET::Unit;
}
impl HasET for ZTok {
    const ET: ET = ET::Zst;
}

// ---- DiplomatResult<P, Q> / Result<P, Q> -------------------------------------------------------

pub struct DResSlot<P, Q>(pub DiplomatResult<P, Q>);
pub struct SResSlot<P, Q>(pub Result<P, Q>);

impl<P: Pl + HasPT, Q: Pl + HasPT> SlotObj for DResSlot<P, Q> {
    fn ty(&self) -> Ty {
        Ty::DRes(P::PT, Q::PT)
    }
    fn idents(&self) -> Vec<(u32, bool)> {
        match self.0.as_ref() {
            Ok(p) => ids_of(p),
            Err(q) => ids_of(q),
        }
    }
    fn intact(&self) -> bool {
        match self.0.as_ref() {
            Ok(p) => p.intact(),
            Err(q) => q.intact(),
        }
    }
    fn convert(self: Box<Self>, how: Conv) -> Box<dyn SlotObj> {
        assert_eq!(how, Conv::Std);
        let r: Result<P, Q> = self.0.into();
        Box::new(SResSlot(r))
    }
    fn try_clone(&self) -> Option<Box<dyn SlotObj>> {
        Some(Box::new(DResSlot(self.0.clone())))
    }
    fn roundtrip(self: Box<Self>) -> Box<dyn SlotObj> {
        Box::new(DResSlot(bitwise(self.0)))
    }
}

impl<P: Pl + HasPT, Q: Pl + HasPT> SlotObj for SResSlot<P, Q> {
    fn ty(&self) -> Ty {
        Ty::SRes(P::PT, Q::PT)
    }
    fn idents(&self) -> Vec<(u32, bool)> {
        match &self.0 {
            Ok(p) => ids_of(p),
            Err(q) => ids_of(q),
        }
    }
    fn intact(&self) -> bool {
        match &self.0 {
            Ok(p) => p.intact(),
            Err(q) => q.intact(),
        }
    }
    fn convert(self: Box<Self>, how: Conv) -> Box<dyn SlotObj> {
        assert_eq!(how, Conv::Ffi);
        let r: DiplomatResult<P, Q> = self.0.into();
        Box::new(DResSlot(r))
    }
    fn try_clone(&self) -> Option<Box<dyn SlotObj>> {
        Some(Box::new(SResSlot(self.0.clone())))
    }
    fn roundtrip(self: Box<Self>) -> Box<dyn SlotObj> {
        Box::new(SResSlot(bitwise(self.0)))
    }
}

// ---- DiplomatOption<P> / Option<P> -------------------------------------------------------------

pub struct DOptSlot<P>(pub DiplomatOption<P>);
pub struct SOptSlot<P>(pub Option<P>);
pub struct SOptWSlot<P>(pub Option<Wrapped<P>>);

impl<P: Pl + HasPT> SlotObj for DOptSlot<P> {
    fn ty(&self) -> Ty {
        Ty::DOpt(P::PT)
    }
    fn idents(&self) -> Vec<(u32, bool)> {
        match self.0.as_ref() {
            Ok(p) => ids_of(p),
            Err(_) => vec![],
        }
    }
    fn intact(&self) -> bool {
        match self.0.as_ref() {
            Ok(p) => p.intact(),
            Err(_) => true,
        }
    }
    fn convert(self: Box<Self>, how: Conv) -> Box<dyn SlotObj> {
        match how {
            Conv::Std => {
                let o: Option<P> = self.0.into();
                Box::new(SOptSlot(o))
            }
            Conv::IntoOption => Box::new(SOptSlot(self.0.into_option())),
            Conv::IntoConverted => Box::new(SOptWSlot(self.0.into_converted_option::<Wrapped<P>>())),
            Conv::Ffi => unreachable!(),
        }
    }
    fn try_clone(&self) -> Option<Box<dyn SlotObj>> {
        Some(Box::new(DOptSlot(self.0.clone())))
    }
    fn roundtrip(self: Box<Self>) -> Box<dyn SlotObj> {
        Box::new(DOptSlot(bitwise(self.0)))
    }
}

impl<P: Pl + HasPT> SlotObj for SOptSlot<P> {
    fn ty(&self) -> Ty {
        Ty::SOpt(P::PT)
    }
    fn idents(&self) -> Vec<(u32, bool)> {
        match &self.0 {
            Some(p) => ids_of(p),
            None => vec![],
        }
    }
    fn intact(&self) -> bool {
        self.0.as_ref().map(|p| p.intact()).unwrap_or(true)
    }
    fn convert(self: Box<Self>, how: Conv) -> Box<dyn SlotObj> {
        assert_eq!(how, Conv::Ffi);
        let o: DiplomatOption<P> = self.0.into();
        Box::new(DOptSlot(o))
    }
    fn try_clone(&self) -> Option<Box<dyn SlotObj>> {
        Some(Box::new(SOptSlot(self.0.clone())))
    }
    fn roundtrip(self: Box<Self>) -> Box<dyn SlotObj> {
        Box::new(SOptSlot(bitwise(self.0)))
    }
}

impl<P: Pl + HasPT> SlotObj for SOptWSlot<P> {
    fn ty(&self) -> Ty {
        Ty::SOptW(P::PT)
    }
    fn idents(&self) -> Vec<(u32, bool)> {
        match &self.0 {
            Some(p) => ids_of(p),
            None => vec![],
        }
    }
    fn intact(&self) -> bool {
        self.0.as_ref().map(|p| p.intact()).unwrap_or(true)
    }
    fn convert(self: Box<Self>, _how: Conv) -> Box<dyn SlotObj> {
        unreachable!()
    }
    fn try_clone(&self) -> Option<Box<dyn SlotObj>> {
        Some(Box::new(SOptWSlot(self.0.clone())))
    }
    fn roundtrip(self: Box<Self>) -> Box<dyn SlotObj> {
        Box::new(SOptWSlot(bitwise(self.0)))
    }
}

// ---- DiplomatOwnedSlice<E> / Box<[E]> ----------------------------------------------------------

pub struct OSliceSlot<E>(pub DiplomatOwnedSlice<E>);
pub struct BSliceSlot<E>(pub Box<[E]>);

/// what C sees of an owned slice
#[repr(C)]
pub struct RawOwned<E> {
    pub ptr: *mut E,
    pub len: usize,
}

pub fn owned_from_raw<E>(raw: RawOwned<E>) -> DiplomatOwnedSlice<E> {
    assert_eq!(std::mem::size_of::<RawOwned<E>>(), std::mem::size_of::<DiplomatOwnedSlice<E>>());
    unsafe { std::ptr::read(&raw as *const RawOwned<E> as *const DiplomatOwnedSlice<E>) }
}

impl<E: Pl + HasET> SlotObj for OSliceSlot<E> {
    fn ty(&self) -> Ty {
        Ty::OSlice(E::ET)
    }
    fn idents(&self) -> Vec<(u32, bool)> {
        let mut v = vec![];
        let s: &[E] = &self.0; // Deref
        for e in s {
            e.idents(&mut v);
        }
        v
    }
    fn intact(&self) -> bool {
        self.0.iter().all(|e| e.intact())
    }
    fn convert(self: Box<Self>, how: Conv) -> Box<dyn SlotObj> {
        assert_eq!(how, Conv::Std);
        let b: Box<[E]> = self.0.into();
        Box::new(BSliceSlot(b))
    }
    fn try_clone(&self) -> Option<Box<dyn SlotObj>> {
        None
    }
    fn roundtrip(self: Box<Self>) -> Box<dyn SlotObj> {
        Box::new(OSliceSlot(bitwise(self.0)))
    }
    fn mutate(&mut self) {
        let s: &mut [E] = &mut self.0; // DerefMut
        s.reverse();
    }
}

impl<E: Pl + HasET> SlotObj for BSliceSlot<E> {
    fn ty(&self) -> Ty {
        Ty::BSlice(E::ET)
    }
    fn idents(&self) -> Vec<(u32, bool)> {
        let mut v = vec![];
        for e in self.0.iter() {
            e.idents(&mut v);
        }
        v
    }
    fn intact(&self) -> bool {
        self.0.iter().all(|e| e.intact())
    }
    fn convert(self: Box<Self>, how: Conv) -> Box<dyn SlotObj> {
        assert_eq!(how, Conv::Ffi);
        let o: DiplomatOwnedSlice<E> = self.0.into();
        Box::new(OSliceSlot(o))
    }
    fn try_clone(&self) -> Option<Box<dyn SlotObj>> {
        Some(Box::new(BSliceSlot(self.0.clone())))
    }
    fn roundtrip(self: Box<Self>) -> Box<dyn SlotObj> {
        Box::new(BSliceSlot(bitwise(self.0)))
    }
    fn mutate(&mut self) {
        self.0.reverse();
    }
}

// ---- DiplomatOwnedUTF8StrSlice / Box<str> ------------------------------------------------------

pub struct OStrSlot(pub DiplomatOwnedUTF8StrSlice);
pub struct BStrSlot(pub Box<str>);

pub fn ostr_from_raw(raw: RawOwned<u8>) -> DiplomatOwnedUTF8StrSlice {
    assert_eq!(std::mem::size_of::<RawOwned<u8>>(), std::mem::size_of::<DiplomatOwnedUTF8StrSlice>());
    unsafe { std::ptr::read(&raw as *const RawOwned<u8> as *const DiplomatOwnedUTF8StrSlice) }
}

impl SlotObj for OStrSlot {
    fn ty(&self) -> Ty {
        Ty::OStr8
    }
    fn idents(&self) -> Vec<(u32, bool)> {
        let s: &str = &self.0; // Deref
        s.bytes().map(|b| (b as u32, false)).collect()
    }
    fn intact(&self) -> bool {
        true
    }
    fn convert(self: Box<Self>, how: Conv) -> Box<dyn SlotObj> {
        assert_eq!(how, Conv::Std);
        let b: Box<str> = self.0.into();
        Box::new(BStrSlot(b))
    }
    fn try_clone(&self) -> Option<Box<dyn SlotObj>> {
        None
    }
    fn roundtrip(self: Box<Self>) -> Box<dyn SlotObj> {
        Box::new(OStrSlot(bitwise(self.0)))
    }
}

impl SlotObj for BStrSlot {
    fn ty(&self) -> Ty {
        Ty::BStr
    }
    fn idents(&self) -> Vec<(u32, bool)> {
        self.0.bytes().map(|b| (b as u32, false)).collect()
    }
    fn intact(&self) -> bool {
        true
    }
    fn convert(self: Box<Self>, how: Conv) -> Box<dyn SlotObj> {
        assert_eq!(how, Conv::Ffi);
        let o: DiplomatOwnedUTF8StrSlice = self.0.into();
        Box::new(OStrSlot(o))
    }
    fn try_clone(&self) -> Option<Box<dyn SlotObj>> {
        Some(Box::new(BStrSlot(self.0.clone())))
    }
    fn roundtrip(self: Box<Self>) -> Box<dyn SlotObj> {
        Box::new(BStrSlot(bitwise(self.0)))
    }
}

// ---- DiplomatCallback<u32> ---------------------------------------------------------------------

pub struct CbData {
    pub tok: Heavy,
    pub calls: u32,
}

unsafe extern "C" fn cb_run(data: *mut c_void, arg: u32) -> u32 {
    let d = &mut *(data as *mut CbData);
    d.calls += 1;
    arg.wrapping_add(d.tok.id)
}

unsafe extern "C" fn cb_destroy(data: *mut c_void) {
    drop(Box::from_raw(data as *mut CbData));
}

pub struct CbSlot {
    pub cb: DiplomatCallback<u32>,
    /// id of the foreign-side token behind `data` (the harness knows what it handed out)
    pub data_id: u32,
    pub has_dtor: bool,
}

// Foreign callers need not use pointers for `data`: bindings that keep their closures in a table hand Rust a *handle*
// (an index), and the first handle of such a table is 0, i.e. a null `data`. In handle mode the harness does the same:
// handles are never reused within a run, so a second destructor call or a call after release is seen exactly.
struct HandleEntry {
    ptr: *mut CbData,
    id: u32,
    released: bool,
}
thread_local! {
    static HANDLES: std::cell::RefCell<Vec<HandleEntry>> = const { std::cell::RefCell::new(Vec::new()) };
}

/// forget all handles (start of a run)
pub fn reset_cookies() {
    HANDLES.with(|h| h.borrow_mut().clear());
}

unsafe extern "C" fn cb_run_h(data: *mut c_void, arg: u32) -> u32 {
    let idx = data as usize;
    let (ptr, id, released) = HANDLES.with(|h| h.borrow().get(idx).map(|e| (e.ptr, e.id, e.released))).unwrap_or((std::ptr::null_mut(), 0, true));
    if released {
        ledger::note_bad(format!("callback #{} (handle {}) was called after its destructor ran or with a handle never handed out", id, idx));
        return arg;
    }
    cb_run(ptr as *mut c_void, arg)
}

unsafe extern "C" fn cb_destroy_h(data: *mut c_void) {
    let idx = data as usize;
    let e = HANDLES.with(|h| {
        let mut h = h.borrow_mut();
        h.get_mut(idx).map(|e| {
            let was = e.released;
            e.released = true;
            (e.ptr, e.id, was)
        })
    });
    match e {
        Some((ptr, _, false)) => cb_destroy(ptr as *mut c_void),
        // released before: report it through the ledger as the second drop of the payload it owned
        Some((_, id, true)) => {
            ledger::on_drop(id);
        }
        None => ledger::note_bad(format!("callback destructor called with handle {} that was never handed out", idx)),
    }
}

/// `handle`: hand Rust an index into the harness's table (the first one is 0) instead of a pointer
pub fn make_cb_cookie(with_destructor: bool, handle: bool) -> (CbSlot, *mut CbData) {
    let tok = Heavy::new();
    let id = tok.id;
    let data = Box::into_raw(Box::new(CbData { tok, calls: 0 }));
    type Variadic = unsafe extern "C" fn(*mut c_void, ...) -> u32;
    type Concrete = unsafe extern "C" fn(*mut c_void, u32) -> u32;
    let cookie = if handle {
        HANDLES.with(|h| {
            let mut h = h.borrow_mut();
            h.push(HandleEntry { ptr: data, id, released: false });
            (h.len() - 1) as *mut c_void
        })
    } else {
        data as *mut c_void
    };
    let run: Variadic = unsafe { std::mem::transmute::<Concrete, Variadic>(if handle { cb_run_h } else { cb_run }) };
    let destroy: unsafe extern "C" fn(*mut c_void) = if handle { cb_destroy_h } else { cb_destroy };
    let cb = DiplomatCallback { data: cookie, run_callback: run, destructor: if with_destructor { Some(destroy) } else { None } };
    (CbSlot { cb, data_id: id, has_dtor: with_destructor }, data)
}

pub unsafe fn free_cb_data(p: *mut CbData) {
    drop(Box::from_raw(p));
}

impl SlotObj for CbSlot {
    fn ty(&self) -> Ty {
        Ty::Cb
    }
    fn idents(&self) -> Vec<(u32, bool)> {
        // the callback owns its data only if it has a destructor
        if self.has_dtor {
            vec![(self.data_id, true)]
        } else {
            vec![]
        }
    }
    fn intact(&self) -> bool {
        ledger::is_live(self.data_id)
    }
    fn convert(self: Box<Self>, _how: Conv) -> Box<dyn SlotObj> {
        unreachable!()
    }
    fn try_clone(&self) -> Option<Box<dyn SlotObj>> {
        None
    }
    fn roundtrip(self: Box<Self>) -> Box<dyn SlotObj> {
        let s = *self;
        Box::new(CbSlot { cb: bitwise(s.cb), data_id: s.data_id, has_dtor: s.has_dtor })
    }
    fn call(&mut self, arg: u32) -> Option<u32> {
        type Variadic = unsafe extern "C" fn(*mut c_void, ...) -> u32;
        type Concrete = unsafe extern "C" fn(*mut c_void, u32) -> u32;
        // exactly what the macro emits for `impl Fn(u32) -> u32` parameters
        let f: Concrete = unsafe { std::mem::transmute::<Variadic, Concrete>(self.cb.run_callback) };
        Some(unsafe { f(self.cb.data, arg) })
    }
}

// ---- construction by type tag ------------------------------------------------------------------

macro_rules! with_pt {
    ($pt:expr, $f:ident, $($args:tt)*) => {
        match $pt {
            PT::Heavy => $f!(Heavy, $($args)*),
            PT::Light => $f!(Light, $($args)*),
            PT::Word => $f!(u64, $($args)*),
            PT::Unit => $f!((), $($args)*),
            PT::Pair => $f!(Box<[Heavy]>, $($args)*),
        }
    };
}

fn make_res<P: Pl + HasPT, Q: Pl + HasPT>(ffi: bool, ok: bool) -> Box<dyn SlotObj> {
    let r: Result<P, Q> = if ok { Ok(P::make()) } else { Err(Q::make()) };
    if ffi {
        Box::new(DResSlot::<P, Q>(r.into()))
    } else {
        Box::new(SResSlot::<P, Q>(r))
    }
}

fn make_res_q<P: Pl + HasPT>(q: PT, ffi: bool, ok: bool) -> Box<dyn SlotObj> {
    macro_rules! go {
        ($q:ty, $ffi:expr, $ok:expr) => {
            make_res::<P, $q>($ffi, $ok)
        };
    }
    with_pt!(q, go, ffi, ok)
}

fn make_opt<P: Pl + HasPT>(ffi: bool, some: bool) -> Box<dyn SlotObj> {
    let o: Option<P> = if some { Some(P::make()) } else { None };
    if ffi {
        Box::new(DOptSlot::<P>(o.into()))
    } else {
        Box::new(SOptSlot::<P>(o))
    }
}

#[derive(Clone, Copy, Debug, PartialEq, Eq)]
pub enum Build {
    /// built on the Rust side and converted with `From`
    Rust,
    /// NULL + 0, the way C represents an empty slice
    CNull,
    /// buffer from `diplomat_alloc`, filled by the foreign side
    CAlloc,
}

fn make_slice<E: Pl + HasET>(ffi: bool, n: usize, build: Build) -> Box<dyn SlotObj> {
    match build {
        Build::Rust => {
            let v: Vec<E> = (0..n).map(|_| E::make()).collect();
            let b = v.into_boxed_slice();
            if ffi {
                Box::new(OSliceSlot::<E>(b.into()))
            } else {
                Box::new(BSliceSlot::<E>(b))
            }
        }
        Build::CNull => Box::new(OSliceSlot::<E>(owned_from_raw(RawOwned { ptr: std::ptr::null_mut(), len: 0 }))),
        Build::CAlloc => {
            assert!(n > 0 && std::mem::size_of::<E>() > 0);
            unsafe {
                let p = diplomat_runtime::diplomat_alloc(n * std::mem::size_of::<E>(), std::mem::align_of::<E>()) as *mut E;
                for i in 0..n {
                    p.add(i).write(E::make());
                }
                Box::new(OSliceSlot::<E>(owned_from_raw(RawOwned { ptr: p, len: n })))
            }
        }
    }
}

pub fn str_byte(id: u32) -> u8 {
    b'a' + (id % 26) as u8
}

fn make_str(ffi: bool, n: usize, build: Build) -> Box<dyn SlotObj> {
    match build {
        Build::Rust => {
            let s: String = (0..n).map(|_| str_byte(ledger::alloc_id()) as char).collect();
            let b = s.into_boxed_str();
            if ffi {
                Box::new(OStrSlot(b.into()))
            } else {
                Box::new(BStrSlot(b))
            }
        }
        Build::CNull => Box::new(OStrSlot(ostr_from_raw(RawOwned { ptr: std::ptr::null_mut(), len: 0 }))),
        Build::CAlloc => {
            assert!(n > 0);
            unsafe {
                let p = diplomat_runtime::diplomat_alloc(n, 1);
                for i in 0..n {
                    p.add(i).write(str_byte(ledger::alloc_id()));
                }
                Box::new(OStrSlot(ostr_from_raw(RawOwned { ptr: p, len: n })))
            }
        }
    }
}

/// Builds a slot of type `ty`. `arm`: Ok/Some when true. `n`: slice/str length. Returns None for
/// combinations that do not exist (e.g. a C-built slice of tokens with drop glue).
pub fn make_slot(ty: Ty, arm: bool, n: usize, build: Build) -> Option<Box<dyn SlotObj>> {
    Some(match ty {
        Ty::DRes(p, q) | Ty::SRes(p, q) => {
            let ffi = matches!(ty, Ty::DRes(..));
            macro_rules! go {
                ($p:ty, $q:expr, $ffi:expr, $ok:expr) => {
                    make_res_q::<$p>($q, $ffi, $ok)
                };
            }
            with_pt!(p, go, q, ffi, arm)
        }
        Ty::DOpt(p) | Ty::SOpt(p) => {
            let ffi = matches!(ty, Ty::DOpt(_));
            macro_rules! go {
                ($p:ty, $ffi:expr, $some:expr) => {
                    make_opt::<$p>($ffi, $some)
                };
            }
            with_pt!(p, go, ffi, arm)
        }
        Ty::SOptW(_) => return None,
        Ty::OSlice(e) | Ty::BSlice(e) => {
            let ffi = matches!(ty, Ty::OSlice(_));
            if build != Build::Rust && !ffi {
                return None;
            }
            if build == Build::CAlloc && (n == 0 || matches!(e, ET::Heavy | ET::Light | ET::Unit | ET::Zst)) {
                return None;
            }
            match e {
                ET::Heavy => make_slice::<Heavy>(ffi, n, build),
                ET::Light => make_slice::<Light>(ffi, n, build),
                ET::Word => make_slice::<u64>(ffi, n, build),
                ET::U16 => make_slice::<u16>(ffi, n, build),
                ET::Byte => make_slice::<u8>(ffi, n, build),
                ET::Unit => make_slice::<()>(ffi, n, build),
                ET::Zst => make_slice::<ZTok>(ffi, n, build),
            }
        }
        Ty::OStr8 | Ty::BStr => {
            let ffi = matches!(ty, Ty::OStr8);
            if build != Build::Rust && !ffi {
                return None;
            }
            if build == Build::CAlloc && n == 0 {
                return None;
            }
            make_str(ffi, n, build)
        }
        Ty::Cb => return None, // built by the executor (it keeps the foreign data pointer)
    })
}
