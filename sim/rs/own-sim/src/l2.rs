//! Layer L2-C of `own-sim` (DESIGN.md §3.3): the macro-generated `extern "C"` API of the
//! verification bridge, driven the way a C caller drives it (raw handles, by-value FFI structs,
//! function-pointer callbacks), with the ledger model checked after every call.
//!
//! The same executor in `c12` mode focuses on `&mut DiplomatWrite` methods and checks that the
//! generated wrapper flushes after the body on both arms (C12, invariant I8).

use core::ffi::c_void;
use diplomat_runtime::{DiplomatCallback, DiplomatOption, DiplomatOwnedSlice, DiplomatOwnedUTF8StrSlice, DiplomatResult, DiplomatSlice, DiplomatSliceMut, DiplomatStrSlice, DiplomatWrite};
use simcore::ledger;
use simcore::runner::{Outcome, Sim, Violation};
use simcore::{ddmin, Rng};
use std::fmt::Write as _;
use std::panic::{catch_unwind, AssertUnwindSafe};
use vbridge::ffi::View as VView;
use vbridge::ffi::{ErrOut, ErrPod, ErrTok, OutOwned, OutPair, Pod, Tok};
use vbridge::Token;

pub const NH: usize = 6;

// ---- the generated C API, declared the way the macro emits it ---------------------------------

#[repr(C)]
struct SinkVTable {
    destructor: Option<unsafe extern "C" fn(*const c_void)>,
    size: usize,
    alignment: usize,
    run_put_callback: unsafe extern "C" fn(*const c_void, u32) -> u32,
}

/// what C sees of `DiplomatTraitStruct_Sink`
#[repr(C)]
struct RawSink {
    data: *const c_void,
    vtable: SinkVTable,
}

#[allow(improper_ctypes, clashing_extern_declarations)]
extern "C" {
    fn Tok_new() -> Box<Tok>;
    fn Tok_try_new(ok: bool) -> DiplomatResult<Box<Tok>, Box<ErrTok>>;
    fn Tok_maybe_new(some: bool) -> Option<Box<Tok>>;
    fn Tok_try_new_pod_err(ok: bool) -> DiplomatResult<Box<Tok>, ErrPod>;
    fn Tok_make_owned_pair(some: bool) -> OutOwned;
    fn Tok_try_new_err_out(ok: bool) -> DiplomatResult<Box<Tok>, ErrOut>;
    fn Tok_id(this: &Tok) -> u32;
    fn Tok_bump(this: &mut Tok) -> u32;
    fn Tok_peer<'a>(this: &'a Tok) -> &'a Tok;
    fn Tok_maybe_peer<'a>(this: &'a Tok, some: bool) -> Option<&'a Tok>;
    fn Tok_view<'a>(this: &'a Tok) -> Box<VView<'a>>;
    fn Tok_try_view<'a>(this: &'a Tok, ok: bool) -> DiplomatResult<Box<VView<'a>>, Box<ErrTok>>;
    fn Tok_pair<'a>(this: &'a Tok, other: &'a Tok, some: bool) -> OutPair<'a>;
    fn Tok_try_pair<'a>(this: &'a Tok, other: &'a Tok, ok: bool) -> DiplomatResult<OutPair<'a>, Box<ErrTok>>;
    fn Tok_take_bytes(this: &Tok, b: DiplomatOwnedSlice<u8>) -> u32;
    fn Tok_take_str(this: &Tok, s: DiplomatOwnedUTF8StrSlice) -> u32;
    fn Tok_take_str16(this: &Tok, s: DiplomatOwnedSlice<u16>) -> u32;
    fn Tok_take_strs(this: &Tok, v: DiplomatSlice<DiplomatStrSlice>) -> u32;
    fn Tok_sum(this: &Tok, v: DiplomatSlice<u32>) -> u32;
    fn Tok_fill(this: &Tok, out: DiplomatSliceMut<u32>);
    fn Tok_call(this: &Tok, f: DiplomatCallback<u32>) -> u32;
    fn Tok_call_twice(this: &Tok, f: DiplomatCallback<u32>, g: DiplomatCallback<u32>) -> u32;
    fn Tok_ignore(this: &Tok, f: DiplomatCallback<u32>) -> u32;
    fn Tok_try_call(this: &Tok, ok: bool, f: DiplomatCallback<u32>) -> DiplomatResult<u32, Box<ErrTok>>;
    fn Tok_greet(this: &Tok, s: diplomat_runtime::DiplomatUtf8StrSlice, f: DiplomatCallback<u32>) -> u32;
    fn Tok_greet_after(this: &Tok, f: DiplomatCallback<u32>, s: diplomat_runtime::DiplomatUtf8StrSlice) -> u32;
    fn Tok_hold(this: &mut Tok, f: DiplomatCallback<u32>);
    fn Tok_call_held(this: &Tok, x: u32) -> u32;
    fn Tok_unhold(this: &mut Tok);
    fn Tok_hold_mut(this: &mut Tok, f: DiplomatCallback<u32>);
    fn Tok_call_held_mut(this: &mut Tok, x: u32) -> u32;
    fn Tok_call_mut(this: &Tok, f: DiplomatCallback<u32>) -> u32;
    fn Tok_drain(this: &Tok, s: vbridge::ffi::DiplomatTraitStruct_Sink) -> u32;
    fn Tok_opt_in(this: &Tok, p: DiplomatOption<Pod>) -> u32;
    fn Tok_dopt_in(this: &Tok, p: DiplomatOption<Pod>) -> u32;
    fn Tok_opt_u32(this: &Tok, p: DiplomatOption<u32>) -> DiplomatResult<u32, ()>;
    fn Tok_res_unit(ok: bool) -> DiplomatResult<(), ErrPod>;
    fn Tok_res_pod(ok: bool) -> DiplomatResult<Pod, ()>;
    fn Tok_describe(this: &Tok, w: &mut DiplomatWrite);
    fn Tok_describe_n(this: &Tok, n: u32, w: &mut DiplomatWrite);
    fn Tok_describe_named<'a>(this: &'a Tok, w: &'a mut DiplomatWrite);
    fn Tok_opt_describe(this: &Tok, some: bool, w: &mut DiplomatWrite) -> DiplomatResult<(), ()>;
    fn Tok_try_describe_named<'a>(this: &Tok, ok: bool, w: &'a mut DiplomatWrite) -> DiplomatResult<(), ErrPod>;
    fn Tok_try_describe(this: &Tok, ok: bool, w: &mut DiplomatWrite) -> DiplomatResult<(), Box<ErrTok>>;
    fn Tok_destroy(this: Box<Tok>);
    fn ErrTok_id(this: &ErrTok) -> u32;
    fn ErrTok_destroy(this: Box<ErrTok>);
    fn View_id(this: &VView) -> u32;
    fn View_owner_id(this: &VView) -> u32;
    fn View_owner<'a>(this: &VView<'a>) -> &'a Tok;
    fn View_destroy(this: Box<VView>);
}

/// C's view of `DiplomatResult<ptr, ptr>`: read the bytes, own the active arm.
fn split_result<T, E>(r: DiplomatResult<T, E>) -> Result<T, E> {
    // a C caller reads `is_ok` and the union; the by-value struct itself has no destructor in C
    let is_ok = r.is_ok;
    let m = std::mem::ManuallyDrop::new(r);
    unsafe {
        let base = &*m as *const DiplomatResult<T, E> as *const u8;
        if is_ok {
            Ok(std::ptr::read(base as *const T))
        } else {
            Err(std::ptr::read(base as *const E))
        }
    }
}

// ---- foreign-side callback data ---------------------------------------------------------------

struct CbData {
    tok: Token,
    calls: u32,
}

unsafe extern "C" fn cb_run(data: *mut c_void, arg: u32) -> u32 {
    let d = &mut *(data as *mut CbData);
    d.calls += 1;
    arg.wrapping_add(d.tok.id)
}
unsafe extern "C" fn cb_destroy(data: *mut c_void) {
    drop(Box::from_raw(data as *mut CbData));
}
unsafe extern "C" fn sink_put(data: *const c_void, x: u32) -> u32 {
    let d = &mut *(data as *mut CbData);
    d.calls += 1;
    x.wrapping_add(d.tok.id)
}
unsafe extern "C" fn sink_destroy(data: *const c_void) {
    drop(Box::from_raw(data as *mut CbData));
}

// Handle cookies (see slots.rs): a foreign side that keeps its closures in a table hands Rust an index as `data`, and
// the first index is 0 (a null `data`). Switched on by the trace-level op `cookies handle`; handles are never reused
// within a run, so a second destructor call or a call after release is seen exactly.
struct HandleEntry {
    ptr: *mut CbData,
    id: u32,
    released: bool,
}
thread_local! {
    static HANDLES: std::cell::RefCell<Vec<HandleEntry>> = const { std::cell::RefCell::new(Vec::new()) };
    static HANDLE_MODE: std::cell::Cell<bool> = const { std::cell::Cell::new(false) };
}
unsafe extern "C" fn cb_run_h(data: *mut c_void, arg: u32) -> u32 {
    let idx = data as usize;
    let (ptr, id, released) = HANDLES.with(|h| h.borrow().get(idx).map(|e| (e.ptr, e.id, e.released))).unwrap_or((std::ptr::null_mut(), 0, true));
    if released {
        ledger::note_bad(format!("callback #{} (handle {}) was called after its destructor ran or with a handle never handed out", id, idx));
        return arg;
    }
    cb_run(ptr as *mut c_void, arg)
}
unsafe extern "C" fn cb_destroy_h(data: *mut c_void) {
    let idx = data as usize;
    let e = HANDLES.with(|h| {
        let mut h = h.borrow_mut();
        h.get_mut(idx).map(|e| {
            let was = e.released;
            e.released = true;
            (e.ptr, e.id, was)
        })
    });
    match e {
        Some((ptr, _, false)) => cb_destroy(ptr as *mut c_void),
        Some((_, id, true)) => {
            ledger::on_drop(id);
        }
        None => ledger::note_bad(format!("callback destructor called with handle {} that was never handed out", idx)),
    }
}

fn make_cb(dtor: bool) -> (DiplomatCallback<u32>, *mut CbData, u32) {
    let tok = Token::new();
    let id = tok.id;
    let data = Box::into_raw(Box::new(CbData { tok, calls: 0 }));
    type Variadic = unsafe extern "C" fn(*mut c_void, ...) -> u32;
    type Concrete = unsafe extern "C" fn(*mut c_void, u32) -> u32;
    let handle = HANDLE_MODE.with(|m| m.get());
    let cookie = if handle {
        HANDLES.with(|h| {
            let mut h = h.borrow_mut();
            h.push(HandleEntry { ptr: data, id, released: false });
            (h.len() - 1) as *mut c_void
        })
    } else {
        data as *mut c_void
    };
    let run: Variadic = unsafe { std::mem::transmute::<Concrete, Variadic>(if handle { cb_run_h } else { cb_run }) };
    let destroy: unsafe extern "C" fn(*mut c_void) = if handle { cb_destroy_h } else { cb_destroy };
    (DiplomatCallback { data: cookie, run_callback: run, destructor: if dtor { Some(destroy) } else { None } }, data, id)
}

// ---- caller-supplied writer for the describe methods ------------------------------------------

#[repr(C)]
struct Mirror {
    context: *mut c_void,
    buf: *mut u8,
    len: usize,
    cap: usize,
    grow_failed: bool,
    flush: extern "C" fn(*mut DiplomatWrite),
    grow: extern "C" fn(*mut DiplomatWrite, usize) -> bool,
}

struct WOwner {
    store: Vec<u8>,
    flushes: u32,
    grows: u32,
    fail_at: Option<u32>,
    len_at_last_flush: usize,
}

extern "C" fn w_flush(this: *mut DiplomatWrite) {
    unsafe {
        let m = this as *mut Mirror;
        let o = &mut *((*m).context as *mut WOwner);
        o.flushes += 1;
        o.len_at_last_flush = (*m).len;
    }
}

extern "C" fn w_grow(this: *mut DiplomatWrite, req: usize) -> bool {
    unsafe {
        let m = this as *mut Mirror;
        let o = &mut *((*m).context as *mut WOwner);
        let k = o.grows;
        o.grows += 1;
        if o.fail_at == Some(k) {
            return false;
        }
        let mut fresh = vec![0u8; req];
        let len = (*m).len;
        fresh[..len].copy_from_slice(&o.store[..len]);
        o.store = fresh;
        (*m).buf = o.store.as_mut_ptr();
        (*m).cap = req;
        true
    }
}

struct Writer {
    m: *mut Mirror,
    o: *mut WOwner,
}

impl Writer {
    fn new(cap: usize, fail_at: Option<u32>) -> Writer {
        let o = Box::into_raw(Box::new(WOwner { store: vec![0u8; cap.max(1)], flushes: 0, grows: 0, fail_at, len_at_last_flush: 0 }));
        let m = unsafe { Box::into_raw(Box::new(Mirror { context: o as *mut c_void, buf: (*o).store.as_mut_ptr(), len: 0, cap: cap.max(1), grow_failed: false, flush: w_flush, grow: w_grow })) };
        Writer { m, o }
    }
    fn as_write(&self) -> &mut DiplomatWrite {
        unsafe { &mut *(self.m as *mut DiplomatWrite) }
    }
    fn finish(self) -> (Vec<u8>, u32, bool, usize, u32) {
        unsafe {
            let m = Box::from_raw(self.m);
            let o = Box::from_raw(self.o);
            let content = o.store[..m.len.min(o.store.len())].to_vec();
            (content, o.flushes, m.grow_failed, o.len_at_last_flush, o.grows)
        }
    }
}

// ---- trace -------------------------------------------------------------------------------------

#[derive(Clone, Debug, PartialEq, Eq)]
pub enum Op {
    New { h: usize },
    TryNew { h: usize, ok: bool },
    MaybeNew { h: usize, some: bool },
    TryNewPodErr { h: usize, ok: bool },
    /// an out-struct owning two objects (h and d receive them)
    OwnedPair { h: usize, d: usize, some: bool },
    /// Result whose error type is an out-struct owning an object
    TryNewErrOut { h: usize, ok: bool },
    Id { h: usize },
    Bump { h: usize },
    Peer { h: usize },
    MaybePeer { h: usize, some: bool },
    View { h: usize, d: usize },
    TryView { h: usize, d: usize, ok: bool },
    ViewOwner { d: usize },
    Pair { h: usize, g: usize, some: bool },
    TryPair { h: usize, g: usize, d: usize, ok: bool },
    TakeBytes { h: usize, n: usize },
    TakeStr { h: usize, n: usize },
    TakeStr16 { h: usize, n: usize },
    TakeStrs { h: usize, k: usize },
    Sum { h: usize, n: usize },
    Fill { h: usize, n: usize },
    Call { h: usize, dtor: bool },
    CallTwice { h: usize, d1: bool, d2: bool },
    Ignore { h: usize, dtor: bool },
    TryCall { h: usize, d: usize, ok: bool, dtor: bool },
    Greet { h: usize, n: usize, dtor: bool },
    Hold { h: usize, dtor: bool },
    HoldMut { h: usize, dtor: bool },
    CallHeldMut { h: usize },
    CallMut { h: usize, dtor: bool },
    CallHeld { h: usize },
    Unhold { h: usize },
    Drain { h: usize, dtor: bool },
    OptIn { h: usize, some: bool },
    DOptIn { h: usize, some: bool },
    OptU32 { h: usize, some: bool },
    ResUnit { ok: bool },
    ResPod { ok: bool },
    Describe { h: usize, cap: usize },
    /// v: 0 = describe_named (named lifetime on the writer), 1 = opt_describe, 2 = try_describe_named
    DescribeVariant { h: usize, v: u8, arm: bool, cap: usize },
    DescribeN { h: usize, n: u32, cap: usize, fail_at: Option<u32> },
    TryDescribe { h: usize, d: usize, ok: bool, cap: usize },
    Destroy { h: usize },
    /// from here on callbacks carry handle cookies (table indices, the first one 0) / pointers again
    Cookies { handle: bool },
}

fn b(x: bool, t: &'static str, f: &'static str) -> &'static str {
    if x {
        t
    } else {
        f
    }
}

pub fn op_text(op: &Op) -> String {
    use Op::*;
    match op {
        New { h } => format!("new {}", h),
        TryNew { h, ok } => format!("try_new {} {}", h, b(*ok, "ok", "err")),
        MaybeNew { h, some } => format!("maybe_new {} {}", h, b(*some, "some", "none")),
        TryNewPodErr { h, ok } => format!("try_new_pod_err {} {}", h, b(*ok, "ok", "err")),
        OwnedPair { h, d, some } => format!("owned_pair {} {} {}", h, d, b(*some, "some", "none")),
        TryNewErrOut { h, ok } => format!("try_new_err_out {} {}", h, b(*ok, "ok", "err")),
        Id { h } => format!("id {}", h),
        Bump { h } => format!("bump {}", h),
        Peer { h } => format!("peer {}", h),
        MaybePeer { h, some } => format!("maybe_peer {} {}", h, b(*some, "some", "none")),
        View { h, d } => format!("view {} {}", h, d),
        TryView { h, d, ok } => format!("try_view {} {} {}", h, d, b(*ok, "ok", "err")),
        ViewOwner { d } => format!("view_owner {}", d),
        Pair { h, g, some } => format!("pair {} {} {}", h, g, b(*some, "some", "none")),
        TryPair { h, g, d, ok } => format!("try_pair {} {} {} {}", h, g, d, b(*ok, "ok", "err")),
        TakeBytes { h, n } => format!("take_bytes {} {}", h, n),
        TakeStr { h, n } => format!("take_str {} {}", h, n),
        TakeStr16 { h, n } => format!("take_str16 {} {}", h, n),
        TakeStrs { h, k } => format!("take_strs {} {}", h, k),
        Sum { h, n } => format!("sum {} {}", h, n),
        Fill { h, n } => format!("fill {} {}", h, n),
        Call { h, dtor } => format!("call {} {}", h, b(*dtor, "dtor", "nodtor")),
        CallTwice { h, d1, d2 } => format!("call_twice {} {} {}", h, b(*d1, "dtor", "nodtor"), b(*d2, "dtor", "nodtor")),
        Ignore { h, dtor } => format!("ignore {} {}", h, b(*dtor, "dtor", "nodtor")),
        TryCall { h, d, ok, dtor } => format!("try_call {} {} {} {}", h, d, b(*ok, "ok", "err"), b(*dtor, "dtor", "nodtor")),
        Greet { h, n, dtor } => format!("greet {} {} {}", h, n, b(*dtor, "dtor", "nodtor")),
        Hold { h, dtor } => format!("hold {} {}", h, b(*dtor, "dtor", "nodtor")),
        HoldMut { h, dtor } => format!("hold_mut {} {}", h, b(*dtor, "dtor", "nodtor")),
        CallHeldMut { h } => format!("call_held_mut {}", h),
        CallMut { h, dtor } => format!("call_mut {} {}", h, b(*dtor, "dtor", "nodtor")),
        CallHeld { h } => format!("call_held {}", h),
        Unhold { h } => format!("unhold {}", h),
        Drain { h, dtor } => format!("drain {} {}", h, b(*dtor, "dtor", "nodtor")),
        OptIn { h, some } => format!("opt_in {} {}", h, b(*some, "some", "none")),
        DOptIn { h, some } => format!("dopt_in {} {}", h, b(*some, "some", "none")),
        OptU32 { h, some } => format!("opt_u32 {} {}", h, b(*some, "some", "none")),
        ResUnit { ok } => format!("res_unit {}", b(*ok, "ok", "err")),
        ResPod { ok } => format!("res_pod {}", b(*ok, "ok", "err")),
        Describe { h, cap } => format!("describe {} {}", h, cap),
        DescribeVariant { h, v, arm, cap } => format!("describe_variant {} {} {} {}", h, v, b(*arm, "ok", "err"), cap),
        DescribeN { h, n, cap, fail_at } => match fail_at {
            Some(k) => format!("describe_n {} {} {} fail_at {}", h, n, cap, k),
            None => format!("describe_n {} {} {}", h, n, cap),
        },
        TryDescribe { h, d, ok, cap } => format!("try_describe {} {} {} {}", h, d, b(*ok, "ok", "err"), cap),
        Destroy { h } => format!("destroy {}", h),
        Cookies { handle } => format!("cookies {}", b(*handle, "handle", "pointer")),
    }
}

fn parse_op(t: &[&str]) -> Result<Op, String> {
    use Op::*;
    let hs = |i: usize| -> Result<usize, String> { t.get(i).and_then(|x| x.parse::<usize>().ok()).filter(|v| *v < NH).ok_or_else(|| format!("bad handle operand {} in {:?}", i, t)) };
    let num = |i: usize| -> Result<usize, String> { t.get(i).and_then(|x| x.parse::<usize>().ok()).ok_or_else(|| format!("bad number {} in {:?}", i, t)) };
    let flag = |i: usize, yes: &str| -> bool { t.get(i) == Some(&yes) };
    Ok(match t[0] {
        "new" => New { h: hs(1)? },
        "try_new" => TryNew { h: hs(1)?, ok: flag(2, "ok") },
        "maybe_new" => MaybeNew { h: hs(1)?, some: flag(2, "some") },
        "try_new_pod_err" => TryNewPodErr { h: hs(1)?, ok: flag(2, "ok") },
        "owned_pair" => OwnedPair { h: hs(1)?, d: hs(2)?, some: flag(3, "some") },
        "try_new_err_out" => TryNewErrOut { h: hs(1)?, ok: flag(2, "ok") },
        "id" => Id { h: hs(1)? },
        "bump" => Bump { h: hs(1)? },
        "peer" => Peer { h: hs(1)? },
        "maybe_peer" => MaybePeer { h: hs(1)?, some: flag(2, "some") },
        "view" => View { h: hs(1)?, d: hs(2)? },
        "try_view" => TryView { h: hs(1)?, d: hs(2)?, ok: flag(3, "ok") },
        "view_owner" => ViewOwner { d: hs(1)? },
        "pair" => Pair { h: hs(1)?, g: hs(2)?, some: flag(3, "some") },
        "try_pair" => TryPair { h: hs(1)?, g: hs(2)?, d: hs(3)?, ok: flag(4, "ok") },
        "take_bytes" => TakeBytes { h: hs(1)?, n: num(2)? },
        "take_str" => TakeStr { h: hs(1)?, n: num(2)? },
        "take_str16" => TakeStr16 { h: hs(1)?, n: num(2)? },
        "take_strs" => TakeStrs { h: hs(1)?, k: num(2)? },
        "sum" => Sum { h: hs(1)?, n: num(2)? },
        "fill" => Fill { h: hs(1)?, n: num(2)? },
        "call" => Call { h: hs(1)?, dtor: flag(2, "dtor") },
        "call_twice" => CallTwice { h: hs(1)?, d1: flag(2, "dtor"), d2: flag(3, "dtor") },
        "ignore" => Ignore { h: hs(1)?, dtor: flag(2, "dtor") },
        "try_call" => TryCall { h: hs(1)?, d: hs(2)?, ok: flag(3, "ok"), dtor: flag(4, "dtor") },
        "greet" => Greet { h: hs(1)?, n: num(2)?, dtor: flag(3, "dtor") },
        "hold" => Hold { h: hs(1)?, dtor: flag(2, "dtor") },
        "hold_mut" => HoldMut { h: hs(1)?, dtor: flag(2, "dtor") },
        "call_held_mut" => CallHeldMut { h: hs(1)? },
        "call_mut" => CallMut { h: hs(1)?, dtor: flag(2, "dtor") },
        "call_held" => CallHeld { h: hs(1)? },
        "unhold" => Unhold { h: hs(1)? },
        "drain" => Drain { h: hs(1)?, dtor: flag(2, "dtor") },
        "opt_in" => OptIn { h: hs(1)?, some: flag(2, "some") },
        "dopt_in" => DOptIn { h: hs(1)?, some: flag(2, "some") },
        "opt_u32" => OptU32 { h: hs(1)?, some: flag(2, "some") },
        "res_unit" => ResUnit { ok: flag(1, "ok") },
        "res_pod" => ResPod { ok: flag(1, "ok") },
        "describe" => Describe { h: hs(1)?, cap: num(2)? },
        "describe_variant" => DescribeVariant { h: hs(1)?, v: num(2)? as u8, arm: flag(3, "ok"), cap: num(4)? },
        "describe_n" => DescribeN { h: hs(1)?, n: num(2)? as u32, cap: num(3)?, fail_at: if flag(4, "fail_at") { Some(num(5)? as u32) } else { None } },
        "try_describe" => TryDescribe { h: hs(1)?, d: hs(2)?, ok: flag(3, "ok"), cap: num(4)? },
        "destroy" => Destroy { h: hs(1)? },
        "cookies" => Cookies { handle: flag(1, "handle") },
        other => return Err(format!("unknown op {}", other)),
    })
}

#[derive(Clone, Debug, PartialEq, Eq)]
pub struct Trace {
    pub seed: u64,
    pub run: u64,
    pub ops: Vec<Op>,
}

// ---- model + executor -------------------------------------------------------------------------

#[derive(Clone, Copy, Debug, PartialEq, Eq)]
enum Kind {
    Tok,
    ErrTok,
    View,
}

#[derive(Clone, Debug)]
struct Handle {
    kind: Kind,
    ptr: *mut c_void,
    id: u32,
    lender: Option<usize>,
    /// callback stored inside this Tok: (data id, has destructor, foreign data pointer)
    held: Option<(u32, bool, *mut CbData)>,
    held_is_mut: bool,
}

pub struct L2 {
    pub c12: bool,
}

struct Ctr {
    v: Vec<(&'static str, u64)>,
}
impl Ctr {
    fn inc(&mut self, k: &'static str) {
        for e in self.v.iter_mut() {
            if e.0 == k {
                e.1 += 1;
                return;
            }
        }
        self.v.push((k, 1));
    }
}

fn panic_msg(p: &Box<dyn std::any::Any + Send>) -> String {
    if let Some(s) = p.downcast_ref::<&str>() {
        s.to_string()
    } else if let Some(s) = p.downcast_ref::<String>() {
        s.clone()
    } else {
        "?".into()
    }
}

struct Exec<'t> {
    hs: Vec<Option<Handle>>,
    next: u32,
    ctr: Ctr,
    c12: bool,
    step: usize,
    _t: &'t Trace,
}

type R = Result<bool, Violation>; // Ok(true) = executed, Ok(false) = skipped

impl<'t> Exec<'t> {
    fn v(&self, oracle: &str, detail: String) -> Violation {
        Violation { oracle: oracle.into(), step: self.step, detail }
    }
    fn tok(&self, h: usize) -> Option<&Handle> {
        self.hs[h].as_ref().filter(|x| x.kind == Kind::Tok)
    }
    fn tok_ref(&self, h: usize) -> Option<&'static Tok> {
        self.tok(h).map(|x| unsafe { &*(x.ptr as *const Tok) })
    }
    fn has_dependents(&self, h: usize) -> bool {
        self.hs.iter().flatten().any(|x| x.lender == Some(h))
    }
    fn put_tok(&mut self, h: usize, bx: Box<Tok>) {
        let id = self.next;
        self.next += 1;
        self.hs[h] = Some(Handle { kind: Kind::Tok, ptr: Box::into_raw(bx) as *mut c_void, id, lender: None, held: None, held_is_mut: false });
    }
    fn put_err(&mut self, h: usize, bx: Box<ErrTok>) {
        let id = self.next;
        self.next += 1;
        self.hs[h] = Some(Handle { kind: Kind::ErrTok, ptr: Box::into_raw(bx) as *mut c_void, id, lender: None, held: None, held_is_mut: false });
    }
    fn put_view(&mut self, d: usize, lender: usize, bx: Box<VView<'static>>) {
        let id = self.next;
        self.next += 1;
        self.hs[d] = Some(Handle { kind: Kind::View, ptr: Box::into_raw(bx) as *mut c_void, id, lender: Some(lender), held: None, held_is_mut: false });
    }
    /// a transient callback argument: after the call returns its data must be gone if it has a
    /// destructor; otherwise the foreign side still owns it and releases it now
    fn after_transient_cb(&mut self, data: *mut CbData, id: u32, dtor: bool, expect_calls: Option<u32>) -> Result<(), Violation> {
        if dtor {
            self.ctr.inc("callback_with_destructor");
            if ledger::is_live(id) {
                return Err(self.v("O3-leak", format!("callback data #{} was not released although the call that received it has returned", id)));
            }
        } else {
            self.ctr.inc("fault_callback_destructor_null_fired");
            if !ledger::is_live(id) {
                return Err(self.v("O2-premature-drop", format!("callback data #{} without destructor was released by Rust", id)));
            }
            let calls = unsafe { (*data).calls };
            if let Some(e) = expect_calls {
                if calls != e {
                    return Err(self.v("O5-value-integrity", format!("callback ran {} times, expected {}", calls, e)));
                }
            }
            unsafe { drop(Box::from_raw(data)) };
        }
        Ok(())
    }

    fn run(&mut self, op: &Op) -> R {
        use Op::*;
        match op {
            New { h } => {
                if self.hs[*h].is_some() {
                    return Ok(false);
                }
                let bx = unsafe { Tok_new() };
                self.put_tok(*h, bx);
            }
            TryNew { h, ok } => {
                if self.hs[*h].is_some() {
                    return Ok(false);
                }
                match split_result(unsafe { Tok_try_new(*ok) }) {
                    Ok(t) if *ok => self.put_tok(*h, t),
                    Err(e) if !*ok => {
                        self.ctr.inc("fault_arm_err_fired");
                        self.put_err(*h, e)
                    }
                    _ => return Err(self.v("O5-value-integrity", "try_new returned the wrong arm".into())),
                }
            }
            MaybeNew { h, some } => {
                if self.hs[*h].is_some() {
                    return Ok(false);
                }
                match unsafe { Tok_maybe_new(*some) } {
                    Some(t) if *some => self.put_tok(*h, t),
                    None if !*some => self.ctr.inc("fault_arm_none_fired"),
                    _ => return Err(self.v("O5-value-integrity", "maybe_new returned the wrong arm".into())),
                }
            }
            TryNewPodErr { h, ok } => {
                if self.hs[*h].is_some() {
                    return Ok(false);
                }
                match split_result(unsafe { Tok_try_new_pod_err(*ok) }) {
                    Ok(t) if *ok => self.put_tok(*h, t),
                    Err(e) if !*ok && e.code == -7 => self.ctr.inc("fault_arm_err_fired"),
                    _ => return Err(self.v("O5-value-integrity", "try_new_pod_err returned the wrong arm".into())),
                }
            }
            OwnedPair { h, d, some } => {
                if self.hs[*h].is_some() || self.hs[*d].is_some() || h == d {
                    return Ok(false);
                }
                // the C caller receives the struct by value and now owns what its pointer fields point at
                let p = unsafe { Tok_make_owned_pair(*some) };
                if p.n != 77 || p.b.is_some() != *some {
                    return Err(self.v("O5-value-integrity", "make_owned_pair returned wrong fields".into()));
                }
                let OutOwned { a, b: second, .. } = p;
                self.put_tok(*h, a);
                match second {
                    Some(t2) => self.put_tok(*d, t2),
                    None => self.ctr.inc("fault_arm_none_fired"),
                }
                self.ctr.inc("out_struct_owning_objects_returned");
            }
            TryNewErrOut { h, ok } => {
                if self.hs[*h].is_some() {
                    return Ok(false);
                }
                match split_result(unsafe { Tok_try_new_err_out(*ok) }) {
                    Ok(t) if *ok => self.put_tok(*h, t),
                    Err(e) if !*ok && e.code == -3 => {
                        self.ctr.inc("fault_arm_err_fired");
                        let ErrOut { culprit, .. } = e;
                        self.put_err(*h, culprit)
                    }
                    _ => return Err(self.v("O5-value-integrity", "try_new_err_out returned the wrong arm".into())),
                }
            }
            Id { h } => {
                let (kind, ptr, id) = match &self.hs[*h] {
                    Some(x) => (x.kind, x.ptr, x.id),
                    None => return Ok(false),
                };
                let got = unsafe {
                    match kind {
                        Kind::Tok => Tok_id(&*(ptr as *const Tok)),
                        Kind::ErrTok => ErrTok_id(&*(ptr as *const ErrTok)),
                        Kind::View => View_id(&*(ptr as *const VView)),
                    }
                };
                if got != id {
                    return Err(self.v("O5-value-integrity", format!("handle {} reports id {} expected {}", h, got, id)));
                }
            }
            Bump { h } => {
                if self.tok(*h).is_none() || self.has_dependents(*h) {
                    return Ok(false);
                }
                let p = self.tok(*h).unwrap().ptr as *mut Tok;
                unsafe { Tok_bump(&mut *p) };
            }
            Peer { h } => {
                let t = match self.tok_ref(*h) {
                    Some(t) => t,
                    None => return Ok(false),
                };
                let p = unsafe { Tok_peer(t) };
                if p as *const Tok != t as *const Tok || unsafe { Tok_id(p) } != self.tok(*h).unwrap().id {
                    return Err(self.v("O5-value-integrity", "peer() did not return the same object".into()));
                }
            }
            MaybePeer { h, some } => {
                let t = match self.tok_ref(*h) {
                    Some(t) => t,
                    None => return Ok(false),
                };
                let p = unsafe { Tok_maybe_peer(t, *some) };
                if p.is_some() != *some || p.map(|p| p as *const Tok != t as *const Tok).unwrap_or(false) {
                    return Err(self.v("O5-value-integrity", "maybe_peer() returned the wrong arm".into()));
                }
            }
            View { h, d } => {
                if self.hs[*d].is_some() {
                    return Ok(false);
                }
                let t = match self.tok_ref(*h) {
                    Some(t) => t,
                    None => return Ok(false),
                };
                let v = unsafe { Tok_view(t) };
                self.put_view(*d, *h, v);
            }
            TryView { h, d, ok } => {
                if self.hs[*d].is_some() {
                    return Ok(false);
                }
                let t = match self.tok_ref(*h) {
                    Some(t) => t,
                    None => return Ok(false),
                };
                match split_result(unsafe { Tok_try_view(t, *ok) }) {
                    Ok(v) if *ok => self.put_view(*d, *h, v),
                    Err(e) if !*ok => {
                        self.ctr.inc("fault_arm_err_fired");
                        self.put_err(*d, e)
                    }
                    _ => return Err(self.v("O5-value-integrity", "try_view returned the wrong arm".into())),
                }
            }
            ViewOwner { d } => {
                let (ptr, lender) = match &self.hs[*d] {
                    Some(x) if x.kind == Kind::View => (x.ptr as *const VView, x.lender.unwrap()),
                    _ => return Ok(false),
                };
                let want = self.hs[lender].as_ref().map(|l| l.id);
                let got = unsafe { View_owner_id(&*ptr) };
                let got2 = unsafe { Tok_id(View_owner(&*ptr)) };
                if Some(got) != want || Some(got2) != want {
                    return Err(self.v("O5-value-integrity", format!("view reads owner id {} / {}, expected {:?}", got, got2, want)));
                }
                self.ctr.inc("probe_read_through_borrow");
            }
            Pair { h, g, some } => {
                let (a, c) = match (self.tok_ref(*h), self.tok_ref(*g)) {
                    (Some(a), Some(c)) => (a, c),
                    _ => return Ok(false),
                };
                let p = unsafe { Tok_pair(a, c, *some) };
                let gid = self.tok(*g).unwrap().id;
                let n: Option<u32> = p.n.into_option();
                let ok = p.a as *const Tok == a as *const Tok && p.b.map(|x| x as *const Tok) == if *some { Some(c as *const Tok) } else { None } && n == if *some { Some(gid) } else { None };
                if !ok {
                    return Err(self.v("O5-value-integrity", "pair() returned wrong fields".into()));
                }
            }
            TryPair { h, g, d, ok } => {
                if self.hs[*d].is_some() {
                    return Ok(false);
                }
                let (a, c) = match (self.tok_ref(*h), self.tok_ref(*g)) {
                    (Some(a), Some(c)) => (a, c),
                    _ => return Ok(false),
                };
                match split_result(unsafe { Tok_try_pair(a, c, *ok) }) {
                    Ok(p) if *ok => {
                        if p.a as *const Tok != a as *const Tok {
                            return Err(self.v("O5-value-integrity", "try_pair() returned wrong fields".into()));
                        }
                    }
                    Err(e) if !*ok => {
                        self.ctr.inc("fault_arm_err_fired");
                        self.put_err(*d, e)
                    }
                    _ => return Err(self.v("O5-value-integrity", "try_pair returned the wrong arm".into())),
                }
            }
            TakeBytes { h, n } | TakeStr { h, n } | TakeStr16 { h, n } => {
                let t = match self.tok_ref(*h) {
                    Some(t) => t,
                    None => return Ok(false),
                };
                let esz = if matches!(op, TakeStr16 { .. }) { 2 } else { 1 };
                // the foreign caller allocates with diplomat_alloc (the documented contract) and
                // represents the empty slice as NULL + 0
                let (ptr, expect) = unsafe {
                    if *n == 0 {
                        self.ctr.inc("fault_c_null_zero_slice_fired");
                        (std::ptr::null_mut::<u8>(), 0u32)
                    } else {
                        self.ctr.inc("fault_c_allocated_slice_fired");
                        let p = diplomat_runtime::diplomat_alloc(*n * esz, esz);
                        let mut sum = 0u32;
                        for i in 0..*n {
                            let v = b'a' + (i % 26) as u8;
                            if esz == 1 {
                                p.add(i).write(v);
                            } else {
                                (p as *mut u16).add(i).write(v as u16);
                            }
                            sum += v as u32;
                        }
                        (p, sum + 1000 * *n as u32)
                    }
                };
                #[repr(C)]
                struct Raw<T> {
                    ptr: *mut T,
                    len: usize,
                }
                let got = unsafe {
                    match op {
                        TakeBytes { .. } => Tok_take_bytes(t, std::mem::transmute::<Raw<u8>, DiplomatOwnedSlice<u8>>(Raw { ptr, len: *n })),
                        TakeStr { .. } => Tok_take_str(t, std::mem::transmute::<Raw<u8>, DiplomatOwnedUTF8StrSlice>(Raw { ptr, len: *n })),
                        _ => Tok_take_str16(t, std::mem::transmute::<Raw<u16>, DiplomatOwnedSlice<u16>>(Raw { ptr: ptr as *mut u16, len: *n })),
                    }
                };
                if got != expect {
                    return Err(self.v("O5-value-integrity", format!("owned slice argument arrived damaged: {} expected {}", got, expect)));
                }
            }
            TakeStrs { h, k } => {
                let t = match self.tok_ref(*h) {
                    Some(t) => t,
                    None => return Ok(false),
                };
                let strs: Vec<String> = (0..*k).map(|i| "x".repeat(i)).collect();
                let views: Vec<DiplomatStrSlice> = strs.iter().map(|s| s.as_bytes().into()).collect();
                let got = unsafe { Tok_take_strs(t, views.as_slice().into()) };
                let want: u32 = (0..*k).map(|i| i as u32 + 1 + i as u32 * b'x' as u32).sum();
                if got != want {
                    return Err(self.v("O5-value-integrity", "take_strs saw wrong strings".into()));
                }
            }
            Sum { h, n } => {
                let t = match self.tok_ref(*h) {
                    Some(t) => t,
                    None => return Ok(false),
                };
                let v: Vec<u32> = (0..*n as u32).collect();
                let got = unsafe { Tok_sum(t, v.as_slice().into()) };
                if got != v.iter().sum::<u32>() {
                    return Err(self.v("O5-value-integrity", "sum saw wrong slice".into()));
                }
            }
            Fill { h, n } => {
                let t = match self.tok_ref(*h) {
                    Some(t) => t,
                    None => return Ok(false),
                };
                let id = self.tok(*h).unwrap().id;
                let mut v: Vec<u32> = vec![0; *n];
                unsafe { Tok_fill(t, v.as_mut_slice().into()) };
                if v.iter().enumerate().any(|(i, x)| *x != id + i as u32) {
                    return Err(self.v("O5-value-integrity", "fill wrote wrong values".into()));
                }
            }
            Call { h, dtor } | Ignore { h, dtor } | CallMut { h, dtor } => {
                let t = match self.tok_ref(*h) {
                    Some(t) => t,
                    None => return Ok(false),
                };
                let id = self.tok(*h).unwrap().id;
                let (cb, data, cbid) = make_cb(*dtor);
                self.next += 1;
                let is_call = matches!(op, Call { .. } | CallMut { .. });
                let got = unsafe {
                    if matches!(op, CallMut { .. }) {
                        Tok_call_mut(t, cb)
                    } else if is_call {
                        Tok_call(t, cb)
                    } else {
                        Tok_ignore(t, cb)
                    }
                };
                if is_call && got != id.wrapping_add(cbid) {
                    return Err(self.v("O5-value-integrity", "callback result wrong".into()));
                }
                if !is_call {
                    self.ctr.inc("fault_callback_never_called_fired");
                }
                self.after_transient_cb(data, cbid, *dtor, Some(is_call as u32))?;
            }
            CallTwice { h, d1, d2 } => {
                let t = match self.tok_ref(*h) {
                    Some(t) => t,
                    None => return Ok(false),
                };
                let (cb1, data1, id1) = make_cb(*d1);
                let (cb2, data2, id2) = make_cb(*d2);
                self.next += 2;
                let got = unsafe { Tok_call_twice(t, cb1, cb2) };
                if got != (1 + id1) + (2 + id2) {
                    return Err(self.v("O5-value-integrity", "call_twice result wrong".into()));
                }
                self.after_transient_cb(data1, id1, *d1, Some(1))?;
                self.after_transient_cb(data2, id2, *d2, Some(1))?;
            }
            TryCall { h, d, ok, dtor } => {
                if self.hs[*d].is_some() {
                    return Ok(false);
                }
                let t = match self.tok_ref(*h) {
                    Some(t) => t,
                    None => return Ok(false),
                };
                let id = self.tok(*h).unwrap().id;
                let (cb, data, cbid) = make_cb(*dtor);
                self.next += 1;
                match split_result(unsafe { Tok_try_call(t, *ok, cb) }) {
                    Ok(v) if *ok => {
                        if v != id.wrapping_add(cbid) {
                            return Err(self.v("O5-value-integrity", "try_call result wrong".into()));
                        }
                        self.after_transient_cb(data, cbid, *dtor, Some(1))?;
                    }
                    Err(e) if !*ok => {
                        self.ctr.inc("fault_arm_err_fired");
                        self.ctr.inc("fault_callback_never_called_fired");
                        self.put_err(*d, e);
                        self.after_transient_cb(data, cbid, *dtor, Some(0))?;
                    }
                    _ => return Err(self.v("O5-value-integrity", "try_call returned the wrong arm".into())),
                }
            }
            Greet { h, n, dtor } => {
                let t = match self.tok_ref(*h) {
                    Some(t) => t,
                    None => return Ok(false),
                };
                let text = "é".repeat(*n);
                let (cb, data, cbid) = make_cb(*dtor);
                self.next += 1;
                let got = unsafe {
                    if *n % 2 == 0 {
                        Tok_greet(t, text.as_str().into(), cb)
                    } else {
                        Tok_greet_after(t, cb, text.as_str().into())
                    }
                };
                if got != (2 * *n as u32).wrapping_add(cbid) {
                    return Err(self.v("O5-value-integrity", "greet result wrong".into()));
                }
                self.after_transient_cb(data, cbid, *dtor, Some(1))?;
            }
            Hold { h, dtor } | HoldMut { h, dtor } => {
                if self.tok(*h).is_none() || self.has_dependents(*h) {
                    return Ok(false);
                }
                let p = self.tok(*h).unwrap().ptr as *mut Tok;
                let (cb, data, cbid) = make_cb(*dtor);
                self.next += 1;
                let old = self.hs[*h].as_mut().unwrap().held.take();
                let is_mut = matches!(op, HoldMut { .. });
                unsafe {
                    if is_mut {
                        Tok_hold_mut(&mut *p, cb)
                    } else {
                        Tok_hold(&mut *p, cb)
                    }
                };
                self.hs[*h].as_mut().unwrap().held_is_mut = is_mut;
                // a callback Rust retains must still be alive right after the call that stored it
                if !ledger::is_live(cbid) {
                    return Err(self.v("O2-premature-drop", format!("callback data #{} was released although Rust still holds the callback", cbid)));
                }
                if let Some((oid, odtor, odata)) = old {
                    // the replaced callback was dropped by Rust
                    self.after_transient_cb(odata, oid, odtor, None)?;
                }
                self.hs[*h].as_mut().unwrap().held = Some((cbid, *dtor, data));
            }
            CallHeld { h } => {
                let t = match self.tok_ref(*h) {
                    Some(t) => t,
                    None => return Ok(false),
                };
                let held = self.tok(*h).unwrap().held;
                let is_mut = self.tok(*h).unwrap().held_is_mut;
                let got = unsafe { Tok_call_held(t, 40) };
                let want = match held {
                    Some((cbid, _, _)) if !is_mut => 40 + cbid,
                    _ => 0,
                };
                if got != want {
                    return Err(self.v("O5-value-integrity", format!("held callback returned {} expected {}", got, want)));
                }
            }
            CallHeldMut { h } => {
                if self.tok(*h).is_none() || self.has_dependents(*h) {
                    return Ok(false);
                }
                let p = self.tok(*h).unwrap().ptr as *mut Tok;
                let held = self.tok(*h).unwrap().held;
                let is_mut = self.tok(*h).unwrap().held_is_mut;
                let got = unsafe { Tok_call_held_mut(&mut *p, 40) };
                let want = match held {
                    Some((cbid, _, _)) if is_mut => 40 + cbid,
                    _ => 0,
                };
                if got != want {
                    return Err(self.v("O5-value-integrity", format!("held FnMut callback returned {} expected {}", got, want)));
                }
            }
            Unhold { h } => {
                if self.tok(*h).is_none() || self.has_dependents(*h) {
                    return Ok(false);
                }
                let p = self.tok(*h).unwrap().ptr as *mut Tok;
                let old = self.hs[*h].as_mut().unwrap().held.take();
                unsafe { Tok_unhold(&mut *p) };
                if let Some((oid, odtor, odata)) = old {
                    self.after_transient_cb(odata, oid, odtor, None)?;
                }
            }
            Drain { h, dtor } => {
                let t = match self.tok_ref(*h) {
                    Some(t) => t,
                    None => return Ok(false),
                };
                let id = self.tok(*h).unwrap().id;
                let tok = Token::new();
                let cbid = tok.id;
                self.next += 1;
                let data = Box::into_raw(Box::new(CbData { tok, calls: 0 }));
                let raw = RawSink { data: data as *const c_void, vtable: SinkVTable { destructor: if *dtor { Some(sink_destroy) } else { None }, size: std::mem::size_of::<CbData>(), alignment: std::mem::align_of::<CbData>(), run_put_callback: sink_put } };
                let got = unsafe { Tok_drain(t, std::mem::transmute::<RawSink, vbridge::ffi::DiplomatTraitStruct_Sink>(raw)) };
                if got != (id + cbid) + (1 + cbid) {
                    return Err(self.v("O5-value-integrity", "trait object result wrong".into()));
                }
                self.ctr.inc("trait_object_passed");
                self.after_transient_cb(data, cbid, *dtor, Some(2))?;
            }
            OptIn { h, some } | DOptIn { h, some } => {
                let t = match self.tok_ref(*h) {
                    Some(t) => t,
                    None => return Ok(false),
                };
                let arg: DiplomatOption<Pod> = if *some { Some(Pod { a: 40, b: 2 }).into() } else { None.into() };
                let got = unsafe {
                    if matches!(op, OptIn { .. }) {
                        Tok_opt_in(t, arg)
                    } else {
                        Tok_dopt_in(t, arg)
                    }
                };
                if got != if *some { 42 } else { 0 } {
                    return Err(self.v("O5-value-integrity", "optional struct argument arrived damaged".into()));
                }
                if !*some {
                    self.ctr.inc("fault_arm_none_fired");
                }
            }
            OptU32 { h, some } => {
                let t = match self.tok_ref(*h) {
                    Some(t) => t,
                    None => return Ok(false),
                };
                let arg: DiplomatOption<u32> = if *some { Some(9).into() } else { None.into() };
                let got: Option<u32> = unsafe { Tok_opt_u32(t, arg) }.into_option();
                if got != if *some { Some(10) } else { None } {
                    return Err(self.v("O5-value-integrity", "optional u32 round trip wrong".into()));
                }
            }
            ResUnit { ok } => {
                let r: Result<(), ErrPod> = unsafe { Tok_res_unit(*ok) }.into();
                match r {
                    Ok(()) if *ok => {}
                    Err(e) if !*ok && e.code == 3 => self.ctr.inc("fault_arm_err_fired"),
                    _ => return Err(self.v("O5-value-integrity", "res_unit wrong arm".into())),
                }
            }
            ResPod { ok } => {
                let r: Result<Pod, ()> = unsafe { Tok_res_pod(*ok) }.into();
                match r {
                    Ok(p) if *ok && p.a == 5 && p.b == 6 => {}
                    Err(()) if !*ok => self.ctr.inc("fault_arm_err_fired"),
                    _ => return Err(self.v("O5-value-integrity", "res_pod wrong arm".into())),
                }
            }
            Describe { h, cap } => {
                let t = match self.tok_ref(*h) {
                    Some(t) => t,
                    None => return Ok(false),
                };
                let id = self.tok(*h).unwrap().id;
                let w = Writer::new(*cap, None);
                unsafe { Tok_describe(t, w.as_write()) };
                let (content, flushes, failed, len_at_flush, grows) = w.finish();
                if grows > 0 {
                    self.ctr.inc("fault_grow_relocate_fired");
                }
                self.check_write("describe", &content, format!("tok#{}", id).as_bytes(), flushes, failed, false, len_at_flush)?;
            }
            DescribeVariant { h, v, arm, cap } => {
                let t = match self.tok_ref(*h) {
                    Some(t) => t,
                    None => return Ok(false),
                };
                let id = self.tok(*h).unwrap().id;
                let w = Writer::new(*cap, None);
                let (want, arm_ok) = unsafe {
                    match v {
                        0 => {
                            Tok_describe_named(t, w.as_write());
                            (format!("named#{}", id), true)
                        }
                        1 => {
                            let r: Option<()> = Tok_opt_describe(t, *arm, w.as_write()).into_option();
                            (format!("opt#{}", id), r.is_some() == *arm)
                        }
                        _ => {
                            let r: Result<(), ErrPod> = Tok_try_describe_named(t, *arm, w.as_write()).into();
                            (format!("trynamed#{}", id), r.is_ok() == *arm)
                        }
                    }
                };
                let (content, flushes, failed, len_at_flush, _grows) = w.finish();
                if !arm_ok {
                    return Err(self.v("O5-value-integrity", "write-out method returned the wrong arm".into()));
                }
                self.check_write("describe_variant", &content, want.as_bytes(), flushes, failed, false, len_at_flush)?;
            }
            DescribeN { h, n, cap, fail_at } => {
                let t = match self.tok_ref(*h) {
                    Some(t) => t,
                    None => return Ok(false),
                };
                let w = Writer::new(*cap, *fail_at);
                unsafe { Tok_describe_n(t, *n, w.as_write()) };
                let (content, flushes, failed, len_at_flush, grows) = w.finish();
                let mut want = String::new();
                for i in 0..*n {
                    want.push((b'a' + (i % 26) as u8) as char);
                    want.push('é');
                }
                let may_fail = matches!(fail_at, Some(k) if *k < grows);
                if may_fail {
                    self.ctr.inc("fault_grow_fail_fired");
                }
                if grows > 0 {
                    self.ctr.inc("fault_grow_relocate_fired");
                }
                self.check_write("describe_n", &content, want.as_bytes(), flushes, failed, may_fail, len_at_flush)?;
            }
            TryDescribe { h, d, ok, cap } => {
                if self.hs[*d].is_some() {
                    return Ok(false);
                }
                let t = match self.tok_ref(*h) {
                    Some(t) => t,
                    None => return Ok(false),
                };
                let id = self.tok(*h).unwrap().id;
                let w = Writer::new(*cap, None);
                let r = split_result(unsafe { Tok_try_describe(t, *ok, w.as_write()) });
                let (content, flushes, failed, len_at_flush, _grows) = w.finish();
                match r {
                    Ok(()) if *ok => {}
                    Err(e) if !*ok => {
                        self.ctr.inc("fault_arm_err_fired");
                        self.put_err(*d, e)
                    }
                    _ => return Err(self.v("O5-value-integrity", "try_describe returned the wrong arm".into())),
                }
                self.check_write("try_describe", &content, format!("try#{}", id).as_bytes(), flushes, failed, false, len_at_flush)?;
            }
            Cookies { handle } => {
                HANDLE_MODE.with(|m| m.set(*handle));
                if *handle {
                    self.ctr.inc("fault_callback_cookie_handle_mode_fired");
                }
            }
            Destroy { h } => {
                let (kind, ptr, held) = match &self.hs[*h] {
                    Some(x) => (x.kind, x.ptr, x.held),
                    None => return Ok(false),
                };
                if self.has_dependents(*h) {
                    return Ok(false); // the caller contract: lenders outlive their views
                }
                self.hs[*h] = None;
                unsafe {
                    match kind {
                        Kind::Tok => Tok_destroy(Box::from_raw(ptr as *mut Tok)),
                        Kind::ErrTok => ErrTok_destroy(Box::from_raw(ptr as *mut ErrTok)),
                        Kind::View => View_destroy(Box::from_raw(ptr as *mut VView)),
                    }
                }
                if let Some((cid, cdtor, cdata)) = held {
                    self.after_transient_cb(cdata, cid, cdtor, None)?;
                }
            }
        }
        Ok(true)
    }

    fn check_write(&mut self, what: &str, content: &[u8], want: &[u8], flushes: u32, failed: bool, may_fail: bool, len_at_flush: usize) -> Result<(), Violation> {
        if !self.c12 {
            return Ok(());
        }
        self.ctr.inc("write_methods_checked");
        // at least one flush, and (next check) the last one after everything was written; a wrapper that flushes
        // more than once is unusual but returns the same string, so it is only counted
        if flushes == 0 {
            return Err(self.v("I8-flush-count", format!("{}: the generated wrapper never flushed the writer", what)));
        }
        if flushes > 1 {
            self.ctr.inc("write_methods_flushed_more_than_once");
        }
        if len_at_flush != content.len() {
            return Err(self.v("I8-flush-order", format!("{}: flush ran before the body finished writing ({} of {} bytes)", what, len_at_flush, content.len())));
        }
        if failed != may_fail {
            return Err(self.v("I2-flag", format!("{}: grow_failed={} expected {}", what, failed, may_fail)));
        }
        if !failed && content != want {
            return Err(self.v("I1-bytes", format!("{}: wrote {:?} expected {:?}", what, String::from_utf8_lossy(content), String::from_utf8_lossy(want))));
        }
        if failed && !want.starts_with(content) {
            return Err(self.v("I1-bytes", format!("{}: after a failed grow the buffer holds {:?}, not a prefix of {:?}", what, String::from_utf8_lossy(content), String::from_utf8_lossy(want))));
        }
        Ok(())
    }

    fn expected_live(&self) -> Vec<u32> {
        let mut v: Vec<u32> = vec![];
        for h in self.hs.iter().flatten() {
            v.push(h.id);
            if let Some((cid, _, _)) = h.held {
                v.push(cid);
            }
        }
        v.sort_unstable();
        v
    }
}

fn op_kind(op: &Op) -> u32 {
    use Op::*;
    match op {
        New { .. } => 1,
        TryNew { ok, .. } => 2 + *ok as u32,
        MaybeNew { some, .. } => 4 + *some as u32,
        TryNewPodErr { ok, .. } => 6 + *ok as u32,
        OwnedPair { some, .. } => 69 + *some as u32,
        TryNewErrOut { ok, .. } => 71 + *ok as u32,
        Id { .. } => 8,
        Bump { .. } => 9,
        Peer { .. } => 10,
        MaybePeer { .. } => 11,
        View { .. } => 12,
        TryView { ok, .. } => 13 + *ok as u32,
        ViewOwner { .. } => 15,
        Pair { .. } => 16,
        TryPair { ok, .. } => 17 + *ok as u32,
        TakeBytes { n, .. } => 19 + (*n == 0) as u32,
        TakeStr { n, .. } => 21 + (*n == 0) as u32,
        TakeStr16 { n, .. } => 23 + (*n == 0) as u32,
        TakeStrs { .. } => 25,
        Sum { .. } => 26,
        Fill { .. } => 27,
        Call { dtor, .. } => 28 + *dtor as u32,
        CallTwice { .. } => 30,
        Ignore { dtor, .. } => 31 + *dtor as u32,
        TryCall { ok, dtor, .. } => 33 + *ok as u32 * 2 + *dtor as u32,
        Greet { dtor, .. } => 56 + *dtor as u32,
        Hold { dtor, .. } => 37 + *dtor as u32,
        HoldMut { dtor, .. } => 58 + *dtor as u32,
        CallHeldMut { .. } => 60,
        CallMut { dtor, .. } => 61 + *dtor as u32,
        CallHeld { .. } => 39,
        Unhold { .. } => 40,
        Drain { dtor, .. } => 41 + *dtor as u32,
        OptIn { some, .. } => 43 + *some as u32,
        DOptIn { some, .. } => 45 + *some as u32,
        OptU32 { .. } => 47,
        ResUnit { .. } => 48,
        ResPod { .. } => 49,
        Describe { .. } => 50,
        DescribeVariant { v, arm, .. } => 63 + *v as u32 * 2 + *arm as u32,
        DescribeN { fail_at, .. } => 51 + fail_at.is_some() as u32,
        TryDescribe { ok, .. } => 53 + *ok as u32,
        Destroy { .. } => 55,
        Cookies { handle } => 95 + *handle as u32,
    }
}

pub fn execute(t: &Trace, c12: bool) -> Outcome {
    ledger::reset();
    HANDLE_MODE.with(|m| m.set(false));
    HANDLES.with(|h| h.borrow_mut().clear());
    let careful = simcore::faultalloc::careful() && !cfg!(miri);
    if careful {
        simcore::faultalloc::track(true);
    }
    let mut out = Outcome::default();
    let _ = writeln!(out.log, "seed={} run={} engine={}", t.seed, t.run, if c12 { "write-l2" } else { "own-l2" });
    let mut ex = Exec { hs: (0..NH).map(|_| None).collect(), next: 1, ctr: Ctr { v: vec![] }, c12, step: 0, _t: t };
    let mut viol: Option<Violation> = None;
    let mut prev = 0u32;
    let mut executed = 0u32;
    'ops: for (step, op) in t.ops.iter().enumerate() {
        ex.step = step;
        let _ = write!(out.log, "{} {} ", step, op_text(op));
        let r = catch_unwind(AssertUnwindSafe(|| ex.run(op)));
        match r {
            Err(p) => {
                viol = Some(Violation { oracle: "PANIC".into(), step, detail: panic_msg(&p) });
                break 'ops;
            }
            Ok(Err(v)) => {
                viol = Some(v);
                break 'ops;
            }
            Ok(Ok(false)) => {
                ex.ctr.inc("ops_skipped");
                let _ = writeln!(out.log, "skipped");
                continue;
            }
            Ok(Ok(true)) => {}
        }
        executed += 1;
        ex.ctr.inc("ops_executed");
        let k = op_kind(op);
        out.transitions.push((prev << 8) | k);
        prev = k;
        if careful && simcore::faultalloc::double_frees() > 0 {
            viol = Some(Violation { oracle: "O4-double-free".into(), step, detail: "a heap block was released twice during this call".into() });
            break 'ops;
        }
        let bad = ledger::take_bad();
        if !bad.is_empty() {
            viol = Some(Violation { oracle: "O1-exactly-once".into(), step, detail: bad[0].clone() });
            break 'ops;
        }
        if ledger::next_id() != ex.next {
            viol = Some(Violation { oracle: "HARNESS".into(), step, detail: format!("id allocation diverged: ledger {} model {}", ledger::next_id(), ex.next) });
            break 'ops;
        }
        let live = ledger::live();
        let expect = ex.expected_live();
        if live != expect {
            let missing: Vec<u32> = expect.iter().filter(|x| !live.contains(x)).copied().collect();
            let extra: Vec<u32> = live.iter().filter(|x| !expect.contains(x)).copied().collect();
            viol = Some(if !missing.is_empty() {
                Violation { oracle: "O2-premature-drop".into(), step, detail: format!("objects {:?} are still owned by the caller but were already dropped", missing) }
            } else {
                Violation { oracle: "O2-leak".into(), step, detail: format!("objects {:?} are alive although nothing owns them any more (leak)", extra) }
            });
            break 'ops;
        }
        let _ = writeln!(out.log, "live={:?}", live);
    }
    if viol.is_none() {
        // the caller releases everything it still owns: views first, then their lenders
        let step = t.ops.len();
        ex.step = step;
        let r = catch_unwind(AssertUnwindSafe(|| -> Result<(), Violation> {
            for pass in 0..2 {
                for h in 0..NH {
                    let is_view = matches!(&ex.hs[h], Some(x) if x.kind == Kind::View);
                    if ex.hs[h].is_some() && (is_view || pass == 1) {
                        ex.run(&Op::Destroy { h })?;
                    }
                }
            }
            Ok(())
        }));
        match r {
            Err(p) => viol = Some(Violation { oracle: "PANIC".into(), step, detail: format!("final destroy: {}", panic_msg(&p)) }),
            Ok(Err(v)) => viol = Some(v),
            Ok(Ok(())) => {
                let bad = ledger::take_bad();
                let live = ledger::live();
                if !bad.is_empty() {
                    viol = Some(Violation { oracle: "O1-exactly-once".into(), step, detail: bad[0].clone() });
                } else if !live.is_empty() {
                    viol = Some(Violation { oracle: "O3-leak".into(), step, detail: format!("objects {:?} were never dropped", live) });
                }
            }
        }
        let _ = writeln!(out.log, "end live={:?} drops={}", ledger::live(), ledger::drops());
    }
    if careful {
        if viol.is_none() && simcore::faultalloc::double_frees() > 0 {
            viol = Some(Violation { oracle: "O4-double-free".into(), step: t.ops.len(), detail: "a heap block was released twice while the remaining handles were destroyed".into() });
        }
        simcore::faultalloc::track(false);
    }
    if let Some(v) = &viol {
        let _ = writeln!(out.log, "VIOLATION oracle={} step={} {}", v.oracle, v.step, v.detail);
    }
    out.violation = viol;
    out.counters = ex.ctr.v;
    out.nontrivial = executed >= 2;
    out
}

// ---- generator ----------------------------------------------------------------------------------

pub fn gen_trace(seed: u64, run: u64, c12: bool) -> Trace {
    let mut rng = Rng::derive(seed, if c12 { "write-l2" } else { "own-l2" }, run);
    let max_ops = *rng.pick(&[2u32, 3, 4, 6, 8, 12, 20, 30]);
    let nh = 1 + rng.below(NH as u32) as usize;
    let err_rate = *rng.pick(&[0u32, 4, 8, 12]);
    let nodtor_rate = *rng.pick(&[0u32, 4, 8]);
    let destroy_rate = *rng.pick(&[1u32, 2, 4]);
    // family weights drawn per run (swarm): creation, borrow, views, owned args, callbacks, values, writes
    let mut fam: Vec<u32> = (0..7).map(|_| if rng.chance(2, 3) { 1 + rng.below(4) } else { 0 }).collect();
    if c12 {
        fam = vec![0, 0, 0, 0, 0, 0, 6];
    }
    if fam.iter().all(|w| *w == 0) {
        fam[4] = 1;
    }
    let total: u32 = fam.iter().sum();
    #[derive(Clone, Copy, PartialEq)]
    enum K {
        None,
        Tok,
        Err,
        View,
    }
    let mut kinds = vec![K::None; NH];
    let nops = 1 + rng.below(max_ops);
    let mut ops = vec![];
    // (a property of the run, not a PRNG draw: three runs in eight model a foreign side with handle cookies)
    if !c12 && (run.wrapping_mul(0x9E37_79B9_7F4A_7C15) >> 61) < 3 {
        ops.push(Op::Cookies { handle: true });
    }
    for _ in 0..nops {
        let h = rng.below(nh as u32) as usize;
        let ok = rng.below(16) >= err_rate;
        let dtor = rng.below(16) >= nodtor_rate;
        if kinds[h] == K::None {
            match rng.below(8) {
                6 => {
                    let d = rng.below(nh as u32) as usize;
                    ops.push(Op::OwnedPair { h, d, some: ok });
                    if kinds[d] == K::None && d != h {
                        kinds[h] = K::Tok;
                        if ok {
                            kinds[d] = K::Tok;
                        }
                    }
                }
                7 => {
                    ops.push(Op::TryNewErrOut { h, ok });
                    kinds[h] = if ok { K::Tok } else { K::Err };
                }
                0 | 1 | 2 => {
                    ops.push(Op::New { h });
                    kinds[h] = K::Tok;
                }
                3 => {
                    ops.push(Op::TryNew { h, ok });
                    kinds[h] = if ok { K::Tok } else { K::Err };
                }
                4 => {
                    ops.push(Op::MaybeNew { h, some: ok });
                    if ok {
                        kinds[h] = K::Tok;
                    }
                }
                _ => {
                    ops.push(Op::TryNewPodErr { h, ok });
                    if ok {
                        kinds[h] = K::Tok;
                    }
                }
            }
            continue;
        }
        if rng.below(16) < destroy_rate {
            ops.push(Op::Destroy { h });
            // may be skipped by the executor when views depend on it; the generator's view of the
            // table is only a heuristic
            if !kinds.iter().any(|k| *k == K::View) || kinds[h] != K::Tok {
                kinds[h] = K::None;
            }
            continue;
        }
        if kinds[h] != K::Tok {
            ops.push(if kinds[h] == K::View && rng.chance(2, 3) { Op::ViewOwner { d: h } } else { Op::Id { h } });
            continue;
        }
        let d = rng.below(nh as u32) as usize;
        let g = rng.below(nh as u32) as usize;
        let mut pick = rng.below(total);
        let mut f = 0;
        while pick >= fam[f] {
            pick -= fam[f];
            f += 1;
        }
        let op = match f {
            0 => Op::Id { h },
            1 => match rng.below(4) {
                0 => Op::Peer { h },
                1 => Op::MaybePeer { h, some: ok },
                2 => Op::Bump { h },
                _ => Op::Pair { h, g, some: ok },
            },
            2 => match rng.below(4) {
                0 | 1 => {
                    if kinds[d] == K::None {
                        kinds[d] = K::View;
                    }
                    Op::View { h, d }
                }
                2 => {
                    if kinds[d] == K::None {
                        kinds[d] = if ok { K::View } else { K::Err };
                    }
                    Op::TryView { h, d, ok }
                }
                _ => {
                    if kinds[d] == K::None && !ok {
                        kinds[d] = K::Err;
                    }
                    Op::TryPair { h, g, d, ok }
                }
            },
            3 => {
                let n = *rng.pick(&[0usize, 0, 1, 3, 17]);
                match rng.below(6) {
                    0 => Op::TakeBytes { h, n },
                    1 => Op::TakeStr { h, n },
                    2 => Op::TakeStr16 { h, n },
                    3 => Op::TakeStrs { h, k: n.min(4) },
                    4 => Op::Sum { h, n },
                    _ => Op::Fill { h, n },
                }
            }
            4 => match rng.below(13) {
                10 => Op::HoldMut { h, dtor },
                11 => Op::CallHeldMut { h },
                12 => Op::CallMut { h, dtor },
                9 => Op::Greet { h, n: rng.below(4) as usize, dtor },
                0 | 1 => Op::Call { h, dtor },
                2 => Op::CallTwice { h, d1: dtor, d2: rng.below(16) >= nodtor_rate },
                3 => Op::Ignore { h, dtor },
                4 => {
                    if kinds[d] == K::None && !ok {
                        kinds[d] = K::Err;
                    }
                    Op::TryCall { h, d, ok, dtor }
                }
                5 => Op::Hold { h, dtor },
                6 => Op::CallHeld { h },
                7 => Op::Unhold { h },
                _ => Op::Drain { h, dtor },
            },
            5 => match rng.below(5) {
                0 => Op::OptIn { h, some: ok },
                1 => Op::DOptIn { h, some: ok },
                2 => Op::OptU32 { h, some: ok },
                3 => Op::ResUnit { ok },
                _ => Op::ResPod { ok },
            },
            _ => {
                let cap = *rng.pick(&[1usize, 1, 2, 4, 5, 6, 16, 64]);
                match rng.below(5) {
                    3 | 4 => Op::DescribeVariant { h, v: rng.below(3) as u8, arm: ok, cap },
                    0 => Op::Describe { h, cap },
                    1 => Op::DescribeN { h, n: rng.below(12), cap, fail_at: if rng.chance(1, 3) { Some(rng.below(3)) } else { None } },
                    _ => {
                        if kinds[d] == K::None && !ok {
                            kinds[d] = K::Err;
                        }
                        Op::TryDescribe { h, d, ok, cap }
                    }
                }
            }
        };
        ops.push(op);
    }
    Trace { seed, run, ops }
}

impl Sim for L2 {
    type Trace = Trace;
    fn prop(&self) -> &'static str {
        if self.c12 {
            "C12"
        } else {
            "C03"
        }
    }
    fn name(&self) -> &'static str {
        if self.c12 {
            "write-l2"
        } else {
            "own-l2"
        }
    }
    fn gen(&self, seed: u64, run: u64, _miri: bool) -> Trace {
        gen_trace(seed, run, self.c12)
    }
    fn exec(&self, t: &Trace) -> Outcome {
        execute(t, self.c12)
    }
    fn to_text(&self, t: &Trace) -> String {
        let mut s = format!("# own-sim L2 trace v1 ({})\n", self.name());
        s.push_str(&format!("seed {} run {}\n", t.seed, t.run));
        for op in &t.ops {
            s.push_str("op ");
            s.push_str(&op_text(op));
            s.push('\n');
        }
        s
    }
    fn from_text(&self, text: &str) -> Result<Trace, String> {
        let mut t = Trace { seed: 0, run: 0, ops: vec![] };
        for line in text.lines() {
            let line = line.trim();
            if line.is_empty() || line.starts_with('#') {
                continue;
            }
            let toks: Vec<&str> = line.split_whitespace().collect();
            match toks[0] {
                "seed" => {
                    t.seed = toks.get(1).and_then(|x| x.parse().ok()).ok_or("bad seed")?;
                    t.run = toks.get(3).and_then(|x| x.parse().ok()).unwrap_or(0);
                }
                "op" => t.ops.push(parse_op(&toks[1..])?),
                other => return Err(format!("unknown line {}", other)),
            }
        }
        Ok(t)
    }
    fn shape(&self, t: &Trace) -> String {
        // op kinds (with arms and destructor flags) but not handle numbers
        t.ops.iter().map(|o| format!("{};", op_kind(o))).collect()
    }
    fn ids(&self, t: &Trace) -> (u64, u64) {
        (t.seed, t.run)
    }
    fn minimise(&self, t: &Trace, still_fails: &mut dyn FnMut(&Trace) -> bool) -> Trace {
        let mut budget = 2000usize;
        let base = t.clone();
        let ops = ddmin(&t.ops, &mut budget, &mut |cand: &[Op]| {
            let mut c = base.clone();
            c.ops = cand.to_vec();
            still_fails(&c)
        });
        Trace { ops, ..t.clone() }
    }
}
