//! own-sim — deterministic simulation of ownership transfer across the FFI boundary (property C03).
//!
//!   own-sim l1 run --seed S --from A --to B [--threads T] [--out DIR] [--distinct-shapes N]
//!   own-sim l1 replay FILE | own-sim l1 gen --seed S --run I
//!   own-sim l2 ... (macro-generated extern "C" API of vbridge)   own-sim w2 ... (write methods, C12 I8)
//!
//! exit 0 = no violation, 1 = violation (VIOLATION line printed), 2 = harness error.

mod l1;
mod l2;
mod payload;
mod slots;

use simcore::parse_args;

#[cfg(not(miri))]
#[global_allocator]
static ALLOC: simcore::faultalloc::FaultAlloc = simcore::faultalloc::FaultAlloc;
use simcore::runner::{cmd_gen, cmd_replay, cmd_run, Sim};

fn dispatch<S: Sim>(sim: &S, pos: &[String], kv: &std::collections::BTreeMap<String, String>) -> i32 {
    match pos.get(1).map(|s| s.as_str()) {
        Some("run") => cmd_run(sim, kv),
        Some("replay") => match pos.get(2) {
            Some(p) => cmd_replay(sim, p),
            None => 2,
        },
        Some("gen") => cmd_gen(sim, kv),
        _ => 2,
    }
}

fn main() {
    let args: Vec<String> = std::env::args().skip(1).collect();
    let (pos, kv) = parse_args(&args);
    std::panic::set_hook(Box::new(|_| {}));
    if kv.contains_key("careful") {
        // free-tracking allocator on for every trace: requires --threads 1
        simcore::faultalloc::set_careful(true);
    }
    let code = match pos.first().map(|s| s.as_str()) {
        Some("l1") => dispatch(&l1::L1, &pos, &kv),
        Some("l2") => dispatch(&l2::L2 { c12: false }, &pos, &kv),
        Some("w2") => dispatch(&l2::L2 { c12: true }, &pos, &kv),
        _ => {
            eprintln!("usage: own-sim l1 run|replay|gen ...");
            2
        }
    };
    std::process::exit(code);
}
