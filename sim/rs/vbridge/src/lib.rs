//! The verification bridge (DESIGN.md §3.3): one hand-written `#[diplomat::bridge]` module that
//! contains every ownership shape the proc macro can emit. It is compiled by the *real* macro from
//! the tree under test; the method bodies below are the only stubbed part ("user code").
//!
//! Every opaque owns a ledger-tracked heap token, so "dropped exactly once" is observable.

use simcore::ledger;
use std::mem::ManuallyDrop;

/// Same token as own-sim's `Heavy` (kept separate so this crate stays a plain user crate).
pub struct Token {
    pub id: u32,
    b: ManuallyDrop<Box<u32>>,
}

impl Token {
    pub fn new() -> Token {
        let id = ledger::alloc_id();
        ledger::register(id);
        Token { id, b: ManuallyDrop::new(Box::new(id ^ 0x5a5a_0000)) }
    }
    pub fn intact(&self) -> bool {
        **self.b == self.id ^ 0x5a5a_0000
    }
}

impl Default for Token {
    fn default() -> Self {
        Token::new()
    }
}

impl Drop for Token {
    fn drop(&mut self) {
        if ledger::on_drop(self.id) {
            unsafe { ManuallyDrop::drop(&mut self.b) }
        }
    }
}

#[diplomat::bridge]
pub mod ffi {
    use super::Token;
    use diplomat_runtime::{DiplomatOption, DiplomatWrite};
    use std::fmt::Write;

    #[diplomat::opaque]
    pub struct Tok {
        pub(crate) t: Token,
        pub(crate) held: Option<Box<dyn Fn(u32) -> u32>>,
        pub(crate) held_mut: Option<Box<dyn FnMut(u32) -> u32>>,
        pub(crate) bumps: u32,
    }

    #[diplomat::opaque]
    pub struct ErrTok {
        pub(crate) t: Token,
    }

    #[diplomat::opaque]
    pub struct View<'a> {
        pub(crate) t: Token,
        pub(crate) owner: &'a Tok,
    }

    /// an iterable collection: bindings with iterator support wrap `iter()`/`next()` in their own adapters
    #[diplomat::opaque]
    #[diplomat::attr(not(supports = iterators), disable)]
    pub struct TokList {
        pub(crate) t: Token,
        pub(crate) items: Vec<Token>,
    }

    #[diplomat::opaque]
    #[diplomat::attr(not(supports = iterators), disable)]
    pub struct TokIter<'a> {
        pub(crate) t: Token,
        pub(crate) inner: core::slice::Iter<'a, Token>,
    }

    impl TokList {
        pub fn new(n: u32) -> Box<TokList> {
            let t = Token::new();
            Box::new(TokList { t, items: (0..n).map(|_| Token::new()).collect() })
        }
        pub fn id(&self) -> u32 {
            assert!(self.t.intact());
            self.t.id
        }
        #[diplomat::attr(auto, iterable)]
        pub fn iter<'a>(&'a self) -> Box<TokIter<'a>> {
            Box::new(TokIter { t: Token::new(), inner: self.items.iter() })
        }
    }

    impl<'a> TokIter<'a> {
        #[diplomat::attr(auto, iterator)]
        pub fn next(&mut self) -> Option<u32> {
            assert!(self.t.intact());
            self.inner.next().map(|t| {
                assert!(t.intact());
                t.id
            })
        }
    }

    pub struct Pod {
        pub a: u32,
        pub b: u8,
    }

    pub struct ErrPod {
        pub code: i32,
    }

    #[diplomat::out]
    pub struct OutPair<'a> {
        pub a: &'a Tok,
        pub b: Option<&'a Tok>,
        pub n: DiplomatOption<u32>,
    }

    /// out-structs that *own* opaque objects (plain and as the error type of a Result)
    #[diplomat::out]
    pub struct OutOwned {
        pub a: Box<Tok>,
        pub b: Option<Box<Tok>>,
        pub n: u32,
    }

    #[diplomat::out]
    pub struct ErrOut {
        pub culprit: Box<ErrTok>,
        pub code: i32,
    }

    /// an out-struct with optional *struct* fields: one owning objects, one plain
    #[diplomat::out]
    pub struct OutNested {
        pub tag: u32,
        pub inner: DiplomatOption<OutOwned>,
        pub pod: DiplomatOption<Pod>,
    }

    pub trait Sink {
        fn put(&self, x: u32) -> u32;
    }

    impl ErrTok {
        pub fn id(&self) -> u32 {
            assert!(self.t.intact());
            self.t.id
        }
    }

    impl<'a> View<'a> {
        pub fn id(&self) -> u32 {
            assert!(self.t.intact());
            self.t.id
        }
        /// reads through the borrow: a use-after-free if the lender was destroyed early
        pub fn owner_id(&self) -> u32 {
            assert!(self.owner.t.intact());
            self.owner.t.id
        }
        pub fn owner(&self) -> &'a Tok {
            self.owner
        }
    }

    impl Tok {
        pub fn new() -> Box<Tok> {
            Box::new(Tok { t: Token::new(), held: None, held_mut: None, bumps: 0 })
        }
        pub fn try_new(ok: bool) -> Result<Box<Tok>, Box<ErrTok>> {
            if ok {
                Ok(Tok::new())
            } else {
                Err(Box::new(ErrTok { t: Token::new() }))
            }
        }
        pub fn maybe_new(some: bool) -> Option<Box<Tok>> {
            if some {
                Some(Tok::new())
            } else {
                None
            }
        }
        pub fn try_new_pod_err(ok: bool) -> Result<Box<Tok>, ErrPod> {
            if ok {
                Ok(Tok::new())
            } else {
                Err(ErrPod { code: -7 })
            }
        }
        pub fn id(&self) -> u32 {
            assert!(self.t.intact());
            self.t.id
        }
        pub fn make_owned_pair(some: bool) -> OutOwned {
            let a = Tok::new();
            let b = if some { Some(Tok::new()) } else { None };
            OutOwned { a, b, n: 77 }
        }
        pub fn make_nested(some: bool, both: bool) -> OutNested {
            let inner = if some { Some(OutOwned { a: Tok::new(), b: if both { Some(Tok::new()) } else { None }, n: 78 }) } else { None };
            OutNested { tag: 55, inner: inner.into(), pod: if some { None.into() } else { Some(Pod { a: 9, b: 1 }).into() } }
        }
        pub fn try_new_err_out(ok: bool) -> Result<Box<Tok>, ErrOut> {
            if ok {
                Ok(Tok::new())
            } else {
                Err(ErrOut { culprit: Box::new(ErrTok { t: Token::new() }), code: -3 })
            }
        }
        pub fn bump(&mut self) -> u32 {
            self.bumps += 1;
            self.bumps
        }
        pub fn peer<'a>(&'a self) -> &'a Tok {
            self
        }
        pub fn maybe_peer<'a>(&'a self, some: bool) -> Option<&'a Tok> {
            if some {
                Some(self)
            } else {
                None
            }
        }
        pub fn view<'a>(&'a self) -> Box<View<'a>> {
            Box::new(View { t: Token::new(), owner: self })
        }
        pub fn try_view<'a>(&'a self, ok: bool) -> Result<Box<View<'a>>, Box<ErrTok>> {
            if ok {
                Ok(self.view())
            } else {
                Err(Box::new(ErrTok { t: Token::new() }))
            }
        }
        pub fn pair<'a>(&'a self, other: &'a Tok, some: bool) -> OutPair<'a> {
            OutPair { a: self, b: if some { Some(other) } else { None }, n: if some { Some(other.t.id).into() } else { None.into() } }
        }
        pub fn try_pair<'a>(&'a self, other: &'a Tok, ok: bool) -> Result<OutPair<'a>, Box<ErrTok>> {
            if ok {
                Ok(self.pair(other, true))
            } else {
                Err(Box::new(ErrTok { t: Token::new() }))
            }
        }

        #[diplomat::attr(supports = memory_sharing, disable)]
        pub fn take_bytes(&self, b: Box<[u8]>) -> u32 {
            b.iter().map(|x| *x as u32).sum::<u32>() + 1000 * b.len() as u32
        }
        #[diplomat::attr(supports = memory_sharing, disable)]
        pub fn take_str(&self, s: Box<str>) -> u32 {
            s.bytes().map(|x| x as u32).sum::<u32>() + 1000 * s.len() as u32
        }
        #[diplomat::attr(supports = memory_sharing, disable)]
        pub fn take_str16(&self, s: Box<DiplomatStr16>) -> u32 {
            s.iter().map(|x| *x as u32).sum::<u32>() + 1000 * s.len() as u32
        }
        pub fn take_strs(&self, v: &[DiplomatStrSlice]) -> u32 {
            // reads every byte, like user code that parses the strings would
            v.iter().fold(0u32, |acc, s| s.iter().fold(acc.wrapping_add(s.len() as u32 + 1), |a, b| a.wrapping_add(*b as u32)))
        }
        pub fn sum(&self, v: &[u32]) -> u32 {
            v.iter().sum()
        }
        pub fn fill(&self, out: &mut [u32]) {
            for (i, o) in out.iter_mut().enumerate() {
                *o = self.t.id + i as u32;
            }
        }

        pub fn call(&self, f: impl Fn(u32) -> u32) -> u32 {
            f(self.t.id)
        }
        pub fn call_twice(&self, f: impl Fn(u32) -> u32, g: impl Fn(u32) -> u32) -> u32 {
            f(1) + g(2)
        }
        pub fn ignore(&self, _f: impl Fn(u32) -> u32) -> u32 {
            7
        }
        pub fn try_call(&self, ok: bool, f: impl Fn(u32) -> u32) -> Result<u32, Box<ErrTok>> {
            if ok {
                Ok(f(self.t.id))
            } else {
                Err(Box::new(ErrTok { t: Token::new() }))
            }
        }
        /// a validated `&str` next to a by-value callback: bindings that validate UTF-8 on their
        /// side return early while the callback argument is in flight
        pub fn greet(&self, s: &str, f: impl Fn(u32) -> u32) -> u32 {
            f(s.len() as u32)
        }
        /// the same with the callback declared *before* the validated string
        pub fn greet_after(&self, f: impl Fn(u32) -> u32, s: &str) -> u32 {
            f(s.len() as u32)
        }
        pub fn hold(&mut self, f: impl Fn(u32) -> u32 + 'static) {
            self.held_mut = None;
            self.held = Some(Box::new(f));
        }
        pub fn call_held(&self, x: u32) -> u32 {
            match &self.held {
                Some(f) => f(x),
                None => 0,
            }
        }
        pub fn unhold(&mut self) {
            self.held = None;
            self.held_mut = None;
        }
        /// a retained `FnMut` callback shares the slot of the retained `Fn` one
        pub fn hold_mut(&mut self, f: impl FnMut(u32) -> u32 + 'static) {
            self.held = None;
            self.held_mut = Some(Box::new(f));
        }
        pub fn call_held_mut(&mut self, x: u32) -> u32 {
            match &mut self.held_mut {
                Some(f) => f(x),
                None => 0,
            }
        }
        pub fn call_mut(&self, mut f: impl FnMut(u32) -> u32) -> u32 {
            f(self.t.id)
        }
        #[diplomat::attr(not(supports = "traits"), disable)]
        pub fn drain(&self, s: impl Sink) -> u32 {
            s.put(self.t.id) + s.put(1)
        }

        pub fn opt_in(&self, p: Option<Pod>) -> u32 {
            match p {
                Some(p) => p.a + p.b as u32,
                None => 0,
            }
        }
        pub fn dopt_in(&self, p: DiplomatOption<Pod>) -> u32 {
            match p.into_option() {
                Some(p) => p.a + p.b as u32,
                None => 0,
            }
        }
        pub fn opt_u32(&self, p: Option<u32>) -> Option<u32> {
            p.map(|x| x + 1)
        }
        pub fn res_unit(ok: bool) -> Result<(), ErrPod> {
            if ok {
                Ok(())
            } else {
                Err(ErrPod { code: 3 })
            }
        }
        pub fn res_pod(ok: bool) -> Result<Pod, ()> {
            if ok {
                Ok(Pod { a: 5, b: 6 })
            } else {
                Err(())
            }
        }

        pub fn describe(&self, w: &mut DiplomatWrite) {
            let _ = write!(w, "tok#{}", self.t.id);
        }
        /// the write parameter spelled with a named lifetime
        pub fn describe_named<'a>(&'a self, w: &'a mut DiplomatWrite) {
            let _ = write!(w, "named#{}", self.t.id);
        }
        pub fn opt_describe(&self, some: bool, w: &mut DiplomatWrite) -> Option<()> {
            let _ = write!(w, "opt#{}", self.t.id);
            if some {
                Some(())
            } else {
                None
            }
        }
        pub fn try_describe_named<'a>(&self, ok: bool, w: &'a mut DiplomatWrite) -> Result<(), ErrPod> {
            let _ = write!(w, "trynamed#{}", self.t.id);
            if ok {
                Ok(())
            } else {
                Err(ErrPod { code: 9 })
            }
        }
        pub fn describe_n(&self, n: u32, w: &mut DiplomatWrite) {
            for i in 0..n {
                let _ = write!(w, "{}é", (b'a' + (i % 26) as u8) as char);
            }
        }
        pub fn try_describe(&self, ok: bool, w: &mut DiplomatWrite) -> Result<(), Box<ErrTok>> {
            let _ = write!(w, "try#{}", self.t.id);
            if ok {
                Ok(())
            } else {
                Err(Box::new(ErrTok { t: Token::new() }))
            }
        }
    }
}

// ---- ledger queries for foreign drivers (plain C ABI, not part of the bridge) ------------------

#[no_mangle]
pub extern "C" fn vb_ledger_reset() {
    ledger::reset()
}
#[no_mangle]
pub extern "C" fn vb_ledger_live_count() -> usize {
    ledger::live_count()
}
#[no_mangle]
pub extern "C" fn vb_ledger_is_live(id: u32) -> bool {
    ledger::is_live(id)
}
#[no_mangle]
pub extern "C" fn vb_ledger_bad_count() -> usize {
    let b = ledger::take_bad();
    b.len()
}
#[no_mangle]
pub extern "C" fn vb_ledger_next_id() -> u32 {
    ledger::next_id()
}
#[no_mangle]
pub extern "C" fn vb_ledger_drops() -> u64 {
    ledger::drops()
}
/// Foreign-side tracked token (C++ driver's callback captures): allocate / release an id.
#[no_mangle]
pub extern "C" fn vb_foreign_token_new() -> u32 {
    let id = ledger::alloc_id();
    ledger::register(id);
    id
}
#[no_mangle]
pub extern "C" fn vb_foreign_token_drop(id: u32) -> bool {
    ledger::on_drop(id)
}
