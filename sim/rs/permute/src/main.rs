//! permute — source-level edit histories for proc-sim (DESIGN.md §6.2).
//!
//!   permute --entry <lib.rs> --out <file.rs> [--edit <spec>]...   (edits applied in order)
//!   permute --entry <lib.rs> --list                              (bridge modules and their types)
//!
//! The entry file is loaded with the same `syn-inline-mod` crate the tool uses, edited as a syn
//! tree and re-printed as one file (tokens preserved). State 0 of every history is the re-printed
//! file without edits, so all comparisons are between files this program printed.
//!
//! edit specs:
//!   perm_mods:<seed>          permute `mod` items among their positions at every nesting level
//!                             outside bridge modules (this permutes the bridge modules)
//!   perm_types:<seed>         inside every bridge module: type/trait declarations first, in a
//!                             permuted order, then all other items in their original order (impl
//!                             blocks stay after their type and keep their relative order)
//!   insert_type:<Name>:<opaque|struct|enum>:<k>   add an unreferenced type to the k-th bridge module
//!   remove_type:<Name>
//!   insert_shadow_module:<k>:<seed>   add a new bridge module holding an unreferenced type with the *same Rust
//!                             name and kind* as an existing bridge type (renamed for the backends and with its
//!                             own abi_rename, so outputs do not collide); module name sorts first or last
//!   remove_shadow_module:<k>
//!   insert_nonbridge:<seed>   add functions/consts/same-named types/cfg'd modules outside bridge modules
//!   remove_nonbridge          remove everything insert_nonbridge added
//!   noop

use simcore::Rng;
use syn::{parse_quote, Item};

fn is_bridge(attrs: &[syn::Attribute]) -> bool {
    attrs.iter().any(|a| {
        let segs: Vec<String> = a.path().segments.iter().map(|s| s.ident.to_string()).collect();
        segs == ["diplomat", "bridge"]
    })
}

fn shuffle<T>(v: &mut [T], rng: &mut Rng) {
    for i in (1..v.len()).rev() {
        let j = rng.below(i as u32 + 1) as usize;
        v.swap(i, j);
    }
}

/// permute Item::Mod entries among the positions mods occupy; recurse into non-bridge modules
fn perm_mods(items: &mut Vec<Item>, rng: &mut Rng) {
    let pos: Vec<usize> = items.iter().enumerate().filter(|(_, i)| matches!(i, Item::Mod(_))).map(|(k, _)| k).collect();
    let mut mods: Vec<Item> = pos.iter().map(|k| items[*k].clone()).collect();
    shuffle(&mut mods, rng);
    for (k, m) in pos.iter().zip(mods.into_iter()) {
        items[*k] = m;
    }
    for it in items.iter_mut() {
        if let Item::Mod(m) = it {
            if !is_bridge(&m.attrs) {
                if let Some((_, inner)) = &mut m.content {
                    perm_mods(inner, rng);
                }
            }
        }
    }
}

fn for_each_bridge(items: &mut Vec<Item>, f: &mut dyn FnMut(&mut syn::ItemMod)) {
    for it in items.iter_mut() {
        if let Item::Mod(m) = it {
            if is_bridge(&m.attrs) {
                f(m);
            } else if let Some((_, inner)) = &mut m.content {
                for_each_bridge(inner, f);
            }
        }
    }
}

fn is_type_decl(i: &Item) -> bool {
    matches!(i, Item::Struct(_) | Item::Enum(_) | Item::Trait(_))
}

fn perm_types(items: &mut Vec<Item>, rng: &mut Rng) {
    for_each_bridge(items, &mut |m| {
        if let Some((_, inner)) = &mut m.content {
            let mut types: Vec<Item> = inner.iter().filter(|i| is_type_decl(i)).cloned().collect();
            let rest: Vec<Item> = inner.iter().filter(|i| !is_type_decl(i)).cloned().collect();
            shuffle(&mut types, rng);
            types.extend(rest);
            *inner = types;
        }
    });
}

fn type_name(i: &Item) -> Option<String> {
    match i {
        Item::Struct(s) => Some(s.ident.to_string()),
        Item::Enum(e) => Some(e.ident.to_string()),
        Item::Trait(t) => Some(t.ident.to_string()),
        _ => None,
    }
}

fn insert_type(items: &mut Vec<Item>, name: &str, kind: &str, k: usize) -> bool {
    if kind == "opaque_uses" {
        return insert_uses(items, name, k);
    }
    let ident = syn::Ident::new(name, proc_macro2::Span::call_site());
    // "opaque_impl": an opaque with its own impl block (impl-level abi_rename, a plain method and a
    // callback-taking method) — still referenced by nothing else
    let extra_impl: Option<Item> = if kind == "opaque_impl" {
        let abi = format!("verifabi_{}_{{0}}", name.to_lowercase());
        Some(parse_quote! {
            #[diplomat::abi_rename = #abi]
            impl #ident {
                pub fn verif_get(&self) -> u8 { self.0 }
                #[diplomat::attr(not(supports = "callbacks"), disable)]
                pub fn verif_apply(f: impl Fn(u32) -> u32, x: u32) -> u32 { f(x) }
            }
        })
    } else {
        None
    };
    let new_item: Item = match kind {
        "opaque" | "opaque_impl" => parse_quote! { #[diplomat::opaque] pub struct #ident(u8); },
        "struct" => parse_quote! { pub struct #ident { pub verif_a: u8, pub verif_b: i32 } },
        // (a third of the inserted traits are disabled in one backend: ids of the other traits must not shift)
        "trait" if k % 3 == 1 => parse_quote! { #[diplomat::attr(c, disable)] pub trait #ident { fn verif_m(&self, x: u32) -> u32; } },
        "trait" if k % 3 == 2 => parse_quote! { #[diplomat::attr(kotlin, disable)] pub trait #ident { fn verif_m(&self, x: u32) -> u32; } },
        "trait" => parse_quote! { pub trait #ident { fn verif_m(&self, x: u32) -> u32; } },
        _ => parse_quote! { pub enum #ident { VerifA, VerifB, VerifC } },
    };
    // the target module is chosen among the bridge modules of the *original* source only, so that
    // this edit commutes with insert/remove_shadow_module (histories are compared across such edits)
    let is_orig = |m: &syn::ItemMod| !m.ident.to_string().contains("_verif_shadow_");
    let mut n = 0usize;
    let mut total = 0usize;
    for_each_bridge(items, &mut |m| {
        if is_orig(m) {
            total += 1
        }
    });
    if total == 0 {
        return false;
    }
    // k >= 2000: the bridge module whose path sorts first; k >= 1000: the one whose path sorts last
    // (backends walk types in path order, so "first" and "last" positions are worth aiming at)
    let mut paths: Vec<String> = vec![];
    collect_bridge_paths(items, String::new(), &mut paths);
    let target = if k >= 1000 && !paths.is_empty() {
        let want = if k >= 2000 { paths.iter().min().unwrap().clone() } else { paths.iter().max().unwrap().clone() };
        paths.iter().position(|p| *p == want).unwrap()
    } else {
        k % total
    };
    let k = k % 1000;
    let mut done = false;
    for_each_bridge(items, &mut |m| {
        if !is_orig(m) {
            return;
        }
        if n == target {
            if let Some((_, inner)) = &mut m.content {
                // position inside the module is part of what must not matter
                let at = (k / total) % (inner.len() + 1);
                inner.insert(at, new_item.clone());
                if let Some(im) = &extra_impl {
                    // the impl goes somewhere after its type: sometimes right behind it (i.e. before
                    // other types' impl blocks), sometimes at the end of the module
                    let at2 = if (k / 7) % 2 == 0 { at + 1 } else { inner.len() };
                    inner.insert(at2, im.clone());
                }
                done = true;
            }
        }
        n += 1;
    });
    done
}

fn attr_path(a: &syn::Attribute) -> Vec<String> {
    a.path().segments.iter().map(|x| x.ident.to_string()).collect()
}

/// "opaque_uses": in EVERY original bridge module, an unreferenced opaque `<name>M<j>` whose methods take and return
/// up to six of that module's own types (enums and plain structs by value and inside Option, opaques behind & and
/// Option<&>). Nothing refers to the inserted types, so every pre-existing file must stay as it is; what the insertion
/// adds is *other users* of existing types, generated before or after them depending on the name. `j` is the module's
/// rank among the sorted original bridge paths and all choices depend on the original source only.
fn insert_uses(items: &mut Vec<Item>, name: &str, k: usize) -> bool {
    let mut paths: Vec<String> = vec![];
    collect_bridge_paths(items, String::new(), &mut paths);
    let mut sorted = paths.clone();
    sorted.sort();
    // public static methods of enums anywhere in the original bridge (names only; see the named constructors below)
    let mut all_statics: Vec<String> = vec![];
    for_each_bridge(items, &mut |m| {
        if m.ident.to_string().contains("_verif_shadow_") {
            return;
        }
        if let Some((_, inner)) = &m.content {
            let enums: Vec<String> = inner.iter().filter_map(|i| if let Item::Enum(e) = i { Some(e.ident.to_string()) } else { None }).collect();
            for i in inner.iter() {
                if let Item::Impl(im) = i {
                    if let syn::Type::Path(tp) = &*im.self_ty {
                        if tp.path.get_ident().map(|id| enums.contains(&id.to_string())).unwrap_or(false) {
                            for ii in &im.items {
                                if let syn::ImplItem::Fn(f) = ii {
                                    if f.sig.receiver().is_none() && matches!(f.vis, syn::Visibility::Public(_)) {
                                        all_statics.push(f.sig.ident.to_string());
                                    }
                                }
                            }
                        }
                    }
                }
            }
        }
    });
    all_statics.sort();
    all_statics.dedup();
    fn walk(items: &mut Vec<Item>, prefix: String, sorted: &[String], name: &str, k: usize, done: &mut bool, all_statics: &[String]) {
        for it in items.iter_mut() {
            if let Item::Mod(m) = it {
                let p = if prefix.is_empty() { m.ident.to_string() } else { format!("{}::{}", prefix, m.ident) };
                if is_bridge(&m.attrs) {
                    if m.ident.to_string().contains("_verif_shadow_") {
                        continue;
                    }
                    let j = match sorted.iter().position(|x| *x == p) {
                        Some(j) => j,
                        None => continue,
                    };
                    use quote::ToTokens;
                    // a type (or module) some backend disables cannot be used by a type every backend sees
                    let disables = |attrs: &[syn::Attribute]| attrs.iter().any(|a| a.to_token_stream().to_string().contains("disable"));
                    if disables(&m.attrs) {
                        continue;
                    }
                    let inner = match &mut m.content {
                        Some((_, inner)) => inner,
                        None => continue,
                    };
                    // usable local types: (name, kind), no generics, no cfg, not out-only, not added by this harness
                    let mut local: Vec<(String, &'static str)> = vec![];
                    for i in inner.iter() {
                        match i {
                            Item::Struct(s) => {
                                let n = s.ident.to_string();
                                let ap: Vec<Vec<String>> = s.attrs.iter().map(attr_path).collect();
                                if n.contains("VerifExtra") || disables(&s.attrs) || !s.generics.params.is_empty() || ap.iter().any(|a| a == &["cfg"] || a == &["diplomat", "out"] || a == &["diplomat", "opaque_mut"]) {
                                    continue;
                                }
                                if ap.iter().any(|a| a == &["diplomat", "opaque"]) {
                                    local.push((n, "opaque"));
                                } else if matches!(s.fields, syn::Fields::Named(_)) {
                                    local.push((n, "struct"));
                                }
                            }
                            Item::Enum(e) => {
                                let n = e.ident.to_string();
                                let ap: Vec<Vec<String>> = e.attrs.iter().map(attr_path).collect();
                                if n.contains("VerifExtra") || disables(&e.attrs) || !e.generics.params.is_empty() || ap.iter().any(|a| a == &["cfg"] || a == &["diplomat", "opaque"]) {
                                    continue;
                                }
                                local.push((n, "enum"));
                            }
                            _ => {}
                        }
                    }
                    local.sort();
                    local.dedup();
                    let ident = syn::Ident::new(&format!("{}M{}", name, j), proc_macro2::Span::call_site());
                    let mut methods: Vec<syn::ImplItem> = vec![parse_quote! { pub fn verif_get(&self) -> u8 { self.0 } }];
                    let mut chosen: Vec<usize> = vec![];
                    for t in 0..local.len().min(6) {
                        let c = (k + 3 * j + t) % local.len();
                        if !chosen.contains(&c) {
                            chosen.push(c);
                        }
                    }
                    for (t, c) in chosen.iter().enumerate() {
                        let (tn, kind) = &local[*c];
                        let ty = syn::Ident::new(tn, proc_macro2::Span::call_site());
                        let f1 = syn::Ident::new(&format!("verif_use{}", t), proc_macro2::Span::call_site());
                        let f2 = syn::Ident::new(&format!("verif_use_opt{}", t), proc_macro2::Span::call_site());
                        let plain = (k / 2 + t + j) % 2 == 0;
                        match *kind {
                            "opaque" => {
                                if plain {
                                    methods.push(parse_quote! { pub fn #f1(&self, x: &#ty) -> u8 { let _ = x; self.0 } });
                                }
                                methods.push(parse_quote! { pub fn #f2(x: Option<&#ty>) -> bool { x.is_some() } });
                            }
                            _ => {
                                if plain {
                                    methods.push(parse_quote! { pub fn #f1(&self, x: #ty) -> u8 { let _ = x; self.0 } });
                                }
                                methods.push(parse_quote! {
                                    #[diplomat::attr(not(supports = option), disable)]
                                    pub fn #f2(x: Option<#ty>) -> bool { x.is_some() }
                                });
                            }
                        }
                    }
                    // constructs that need no local type but for which backends keep helper types or shared
                    // definitions: primitive options, primitive slices, unit-error results (two of five per module)
                    for t in 0..2usize {
                        let f = syn::Ident::new(&format!("verif_common{}", t), proc_macro2::Span::call_site());
                        match (k / 5 + 2 * j + 3 * t) % 5 {
                            0 => methods.push(parse_quote! {
                                #[diplomat::attr(not(supports = option), disable)]
                                pub fn #f(x: Option<u8>) -> Option<u8> { x }
                            }),
                            1 => methods.push(parse_quote! { pub fn #f(x: &[u16]) -> usize { x.len() } }),
                            2 => methods.push(parse_quote! { pub fn #f(&self) -> Result<i32, ()> { Ok(self.0 as i32) } }),
                            3 => methods.push(parse_quote! { pub fn #f(x: &mut [f64]) { let _ = x; } }),
                            _ => methods.push(parse_quote! { pub fn #f(x: &[u8]) -> u8 { x.len() as u8 } }),
                        }
                    }
                    // member names of other types reused: named constructors called like public static methods of the
                    // bridge's enums (a name is only a string: the enum need not live in this module)
                    let mut statics: Vec<String> = all_statics.to_vec();
                    if !statics.is_empty() {
                        let r = (k + j) % statics.len();
                        statics.rotate_left(r);
                    }
                    for (t, nm) in statics.iter().take(3).enumerate() {
                        let f = syn::Ident::new(&format!("verif_named{}", t), proc_macro2::Span::call_site());
                        methods.push(parse_quote! {
                            #[diplomat::attr(auto, named_constructor = #nm)]
                            pub fn #f() -> Box<#ident> { Box::new(#ident(0)) }
                        });
                    }
                    let ty_item: Item = parse_quote! { #[diplomat::opaque] pub struct #ident(u8); };
                    let impl_item: Item = parse_quote! { impl #ident { #(#methods)* } };
                    let at = (k / 3 + j) % (inner.len() + 1);
                    inner.insert(at, ty_item);
                    let at2 = if (k / 7 + j) % 2 == 0 { at + 1 } else { inner.len() };
                    inner.insert(at2, impl_item);
                    *done = true;
                } else if let Some((_, inner)) = &mut m.content {
                    walk(inner, p, sorted, name, k, done, all_statics);
                }
            }
        }
    }
    let mut done = false;
    walk(items, String::new(), &sorted, name, k, &mut done, &all_statics);
    done
}

/// is `n` the name of a type `insert_type:<name>:…` added (`<name>` itself or, for opaque_uses, `<name>M<j>`)?
fn is_inserted_name(n: &str, name: &str) -> bool {
    n == name || (n.starts_with(name) && n[name.len()..].starts_with('M') && n[name.len() + 1..].chars().all(|c| c.is_ascii_digit()) && n.len() > name.len() + 1)
}

/// paths ("a::b::ffi") of the original bridge modules, in the order `for_each_bridge` visits them
fn collect_bridge_paths(items: &[Item], prefix: String, out: &mut Vec<String>) {
    for it in items {
        if let Item::Mod(m) = it {
            let p = if prefix.is_empty() { m.ident.to_string() } else { format!("{}::{}", prefix, m.ident) };
            if is_bridge(&m.attrs) {
                if !m.ident.to_string().contains("_verif_shadow_") {
                    out.push(p);
                }
            } else if let Some((_, inner)) = &m.content {
                collect_bridge_paths(inner, p, out);
            }
        }
    }
}

fn remove_type(items: &mut Vec<Item>, name: &str) {
    for_each_bridge(items, &mut |m| {
        if let Some((_, inner)) = &mut m.content {
            inner.retain(|i| {
                if let Item::Impl(im) = i {
                    if let syn::Type::Path(tp) = &*im.self_ty {
                        if let Some(id) = tp.path.get_ident() {
                            if is_inserted_name(&id.to_string(), name) {
                                return false;
                            }
                        }
                    }
                }
                !type_name(i).map(|n| is_inserted_name(&n, name)).unwrap_or(false)
            });
        }
    });
}

/// (name, kind) of every type declared in a bridge module
fn bridge_types(items: &mut Vec<Item>) -> Vec<(String, &'static str)> {
    let mut v = vec![];
    for_each_bridge(items, &mut |m| {
        // only types of the original source: the choice must not depend on other verification edits
        if m.ident.to_string().contains("_verif_shadow_") {
            return;
        }
        if let Some((_, inner)) = &m.content {
            for i in inner {
                match i {
                    Item::Struct(s) if s.ident.to_string().contains("VerifExtra") => {}
                    Item::Enum(e) if e.ident.to_string().contains("VerifExtra") => {}
                    Item::Struct(s) => {
                        let opaque = s.attrs.iter().any(|a| a.path().segments.iter().map(|x| x.ident.to_string()).collect::<Vec<_>>() == ["diplomat", "opaque"]);
                        v.push((s.ident.to_string(), if opaque { "opaque" } else { "struct" }));
                    }
                    Item::Enum(e) => v.push((e.ident.to_string(), "enum")),
                    _ => {}
                }
            }
        }
    });
    v
}

/// names (sorted, deduplicated) of plain bridge structs of the original source that another such struct nests by value
fn nested_by_value_structs(items: &mut Vec<Item>) -> Vec<String> {
    let all: Vec<String> = bridge_types(items).into_iter().filter(|(_, k)| *k == "struct").map(|(n, _)| n).collect();
    let mut out: Vec<String> = vec![];
    for_each_bridge(items, &mut |m| {
        if m.ident.to_string().contains("_verif_shadow_") {
            return;
        }
        if let Some((_, inner)) = &m.content {
            for i in inner {
                if let Item::Struct(s) = i {
                    if s.ident.to_string().contains("VerifExtra") || !s.generics.params.is_empty() {
                        continue;
                    }
                    for f in s.fields.iter() {
                        if let syn::Type::Path(tp) = &f.ty {
                            if let Some(id) = tp.path.get_ident() {
                                if all.contains(&id.to_string()) && *id != s.ident {
                                    out.push(id.to_string());
                                }
                            }
                        }
                    }
                }
            }
        }
    });
    out.sort();
    out.dedup();
    out
}

fn shadow_mod_name(k: u32, last: bool) -> String {
    format!("{}_verif_shadow_{}", if last { "zzz" } else { "aaa" }, k)
}

fn insert_shadow_module(items: &mut Vec<Item>, k: u32, rng: &mut Rng) -> bool {
    // canonical order: the choice must not depend on the declaration order other edits may have permuted
    let mut types = bridge_types(items);
    types.sort();
    types.dedup();
    if types.is_empty() {
        return false;
    }
    // half of the time a struct that some other struct of the original source nests by value, if there is one
    // (backends compute nested layouts / conversions from the nested type: a same-named type is the interesting case)
    let nested = nested_by_value_structs(items);
    let (name, kind) = if !nested.is_empty() && rng.chance(1, 2) {
        (nested[rng.below(nested.len() as u32) as usize].clone(), "struct")
    } else {
        types[rng.below(types.len() as u32) as usize].clone()
    };
    let ident = syn::Ident::new(&name, proc_macro2::Span::call_site());
    let modname = syn::Ident::new(&shadow_mod_name(k, rng.chance(1, 2)), proc_macro2::Span::call_site());
    let rename = format!("VerifShadow{}", k);
    let abi = format!("verifshadow{}_{{0}}", k);
    // a third of the shadow types keep their name and differ from the original by namespace only; backends without
    // namespaces would see two types of one name, so this variant exists for cpp and nanobind only
    let ns_only = rng.chance(1, 3);
    let ty: Item = match kind {
        "opaque" if ns_only => parse_quote! { #[diplomat::opaque] #[diplomat::attr(not(any(cpp, nanobind)), disable)] pub struct #ident(u8); },
        "struct" if ns_only => parse_quote! { #[diplomat::attr(not(any(cpp, nanobind)), disable)] pub struct #ident { pub verif_a: u8, pub verif_b: i32 } },
        _ if ns_only => parse_quote! { #[diplomat::attr(not(any(cpp, nanobind)), disable)] pub enum #ident { VerifA, VerifB } },
        "opaque" => parse_quote! { #[diplomat::opaque] #[diplomat::attr(*, rename = #rename)] pub struct #ident(u8); },
        "struct" => parse_quote! { #[diplomat::attr(*, rename = #rename)] pub struct #ident { pub verif_a: u8, pub verif_b: i32 } },
        _ => parse_quote! { #[diplomat::attr(*, rename = #rename)] pub enum #ident { VerifA, VerifB } },
    };
    // a shadow *struct* is also nested by value in a second new struct, whose name sorts before or after everything
    let user: Option<Item> = if kind == "struct" && !ns_only {
        let uid = syn::Ident::new(&format!("{}VerifShadowUser{}", if rng.chance(1, 2) { "Aa" } else { "Zz" }, k), proc_macro2::Span::call_site());
        Some(parse_quote! { pub struct #uid { pub verif_inner: #ident, pub verif_tail: u8 } })
    } else {
        None
    };
    // half of the shadow modules also live in their own namespace (backends with namespacing qualify names)
    let ns = format!("verifns{}", k);
    let m: Item = if rng.chance(1, 2) || ns_only {
        parse_quote! {
            #[diplomat::bridge]
            #[diplomat::abi_rename = #abi]
            #[diplomat::attr(auto, namespace = #ns)]
            pub mod #modname { #ty #user }
        }
    } else {
        parse_quote! {
            #[diplomat::bridge]
            #[diplomat::abi_rename = #abi]
            pub mod #modname { #ty #user }
        }
    };
    let at = rng.below(items.len() as u32 + 1) as usize;
    items.insert(at, m);
    true
}

fn remove_shadow_module(items: &mut Vec<Item>, k: u32) {
    let a = shadow_mod_name(k, false);
    let z = shadow_mod_name(k, true);
    items.retain(|i| !matches!(i, Item::Mod(m) if m.ident == a || m.ident == z));
}

const MARK: &str = "verif_nonbridge";

fn has_mark(attrs: &[syn::Attribute]) -> bool {
    attrs.iter().any(|a| {
        if let syn::Meta::NameValue(nv) = &a.meta {
            if a.path().is_ident("doc") {
                if let syn::Expr::Lit(l) = &nv.value {
                    if let syn::Lit::Str(s) = &l.lit {
                        return s.value().contains(MARK);
                    }
                }
            }
        }
        false
    })
}

fn item_attrs(i: &Item) -> &[syn::Attribute] {
    match i {
        Item::Fn(x) => &x.attrs,
        Item::Const(x) => &x.attrs,
        Item::Struct(x) => &x.attrs,
        Item::Enum(x) => &x.attrs,
        Item::Mod(x) => &x.attrs,
        Item::Static(x) => &x.attrs,
        Item::Type(x) => &x.attrs,
        Item::Impl(x) => &x.attrs,
        _ => &[],
    }
}

fn collect_bridge_type_names(items: &mut Vec<Item>) -> Vec<String> {
    let mut names = vec![];
    for_each_bridge(items, &mut |m| {
        if let Some((_, inner)) = &m.content {
            for i in inner {
                if let Some(n) = type_name(i) {
                    names.push(n);
                }
            }
        }
    });
    names
}

/// non-bridge items at a nesting level that is not inside a bridge module
fn insert_nonbridge(items: &mut Vec<Item>, rng: &mut Rng, names: &[String], depth: u32, counter: &mut u32) {
    let n_new = 1 + rng.below(4);
    for _ in 0..n_new {
        *counter += 1;
        let c = *counter;
        let fname = syn::Ident::new(&format!("verif_helper_{}", c), proc_macro2::Span::call_site());
        let cname = syn::Ident::new(&format!("VERIF_CONST_{}", c), proc_macro2::Span::call_site());
        let mname = syn::Ident::new(&format!("verif_shadow_{}", c), proc_macro2::Span::call_site());
        let shadow = if names.is_empty() { "VerifNothing".to_string() } else { names[rng.below(names.len() as u32) as usize].clone() };
        let sident = syn::Ident::new(&shadow, proc_macro2::Span::call_site());
        let sident_path: syn::Type = parse_quote! { u8 };
        let uname = syn::Ident::new(&format!("VerifUse{}", c), proc_macro2::Span::call_site());
        let item: Item = match rng.below(11) {
            // a module carrying some *other* crate's `bridge` attribute: still not a Diplomat bridge module
            10 => parse_quote! { #[doc = "verif_nonbridge"] #[cxx::bridge] pub mod #mname { pub struct VerifSample { pub x: u32 } pub enum VerifChannel { A, B } } },
            6 => parse_quote! { #[doc = "verif_nonbridge"] pub use core::fmt::Debug as #uname; },
            // a nested non-bridge module holding a unit struct called `Config` (the name the crates use for
            // their #[diplomat::config] carrier) and items with look-alike attributes
            7 => parse_quote! { #[doc = "verif_nonbridge"] pub mod #mname { #[derive(Clone, Copy)] #[allow(dead_code)] pub struct Config; #[cfg_attr(test, allow(unused))] pub fn lib_name() -> &'static str { "verif_other_lib" } } },
            8 => parse_quote! { #[doc = "verif_nonbridge"] #[allow(non_camel_case_types)] pub struct #fname<'a> { pub r: &'a #sident_path } },
            9 => parse_quote! { #[doc = "verif_nonbridge"] pub mod #mname { pub mod ffi { pub struct #sident(pub u8); impl #sident { pub fn new() -> Self { Self(0) } } } } },
            0 => parse_quote! { #[doc = "verif_nonbridge"] pub fn #fname(x: u32) -> u32 { x.wrapping_mul(3) } },
            1 => parse_quote! { #[doc = "verif_nonbridge"] pub const #cname: u32 = 17; },
            // a same-named type in a non-bridge module
            2 => parse_quote! { #[doc = "verif_nonbridge"] pub mod #mname { pub struct #sident { pub x: u64 } impl #sident { pub fn get(&self) -> u64 { self.x } } pub enum VerifE { A = 7 } } },
            3 => parse_quote! { #[doc = "verif_nonbridge"] #[cfg(test)] mod #mname { #[test] fn t() { assert_eq!(1 + 1, 2); } } },
            4 => parse_quote! { #[doc = "verif_nonbridge"] pub static #cname: &str = "#[diplomat::bridge] mod ffi { pub struct NotReal; }"; },
            _ => parse_quote! { #[doc = "verif_nonbridge"] pub type #cname = core::option::Option<u8>; },
        };
        let at = rng.below(items.len() as u32 + 1) as usize;
        items.insert(at, item);
    }
    if depth < 2 {
        for it in items.iter_mut() {
            if let Item::Mod(m) = it {
                if !is_bridge(&m.attrs) && !has_mark(&m.attrs) {
                    if let Some((_, inner)) = &mut m.content {
                        if rng.chance(1, 2) {
                            insert_nonbridge(inner, rng, names, depth + 1, counter);
                        }
                    }
                }
            }
        }
    }
}

fn remove_nonbridge(items: &mut Vec<Item>) {
    items.retain(|i| !has_mark(item_attrs(i)));
    for it in items.iter_mut() {
        if let Item::Mod(m) = it {
            if !is_bridge(&m.attrs) {
                if let Some((_, inner)) = &mut m.content {
                    remove_nonbridge(inner);
                }
            }
        }
    }
}

/// Order-insensitive fingerprint of a source state: items of every module sorted by their token text.
/// Two states with the same fingerprint are the same program up to declaration order.
fn canonical(items: &[Item]) -> String {
    use quote::ToTokens;
    // (items added by insert_nonbridge are left out: they lie outside the bridge, their own oracle is D4)
    let mut parts: Vec<String> = items
        .iter()
        .filter(|i| !has_mark(item_attrs(i)))
        .map(|i| match i {
            Item::Mod(m) => {
                let attrs: String = m.attrs.iter().map(|a| a.to_token_stream().to_string()).collect::<Vec<_>>().join(" ");
                match &m.content {
                    Some((_, inner)) => format!("{} mod {} {{ {} }}", attrs, m.ident, canonical(inner)),
                    None => format!("{} mod {};", attrs, m.ident),
                }
            }
            other => other.to_token_stream().to_string(),
        })
        .collect();
    parts.sort();
    parts.join("\n")
}

fn main() {
    let args: Vec<String> = std::env::args().skip(1).collect();
    let mut entry = None;
    let mut out = None;
    let mut edits: Vec<String> = vec![];
    let mut list = false;
    let mut i = 0;
    while i < args.len() {
        match args[i].as_str() {
            "--entry" => {
                entry = Some(args[i + 1].clone());
                i += 2;
            }
            "--out" => {
                out = Some(args[i + 1].clone());
                i += 2;
            }
            "--edit" => {
                edits.push(args[i + 1].clone());
                i += 2;
            }
            "--list" => {
                list = true;
                i += 1;
            }
            other => {
                eprintln!("unknown argument {}", other);
                std::process::exit(2);
            }
        }
    }
    let entry = entry.expect("--entry");
    let mut file: syn::File = syn_inline_mod::parse_and_inline_modules(std::path::Path::new(&entry));
    if list {
        let mut k = 0;
        for_each_bridge(&mut file.items, &mut |m| {
            let mut names = vec![];
            if let Some((_, inner)) = &m.content {
                for it in inner {
                    if let Some(n) = type_name(it) {
                        names.push(n);
                    }
                }
            }
            println!("bridge {} {} {}", k, m.ident, names.join(","));
            k += 1;
        });
        return;
    }
    let mut counter = 0u32;
    for e in &edits {
        let parts: Vec<&str> = e.split(':').collect();
        match parts[0] {
            "noop" => {}
            "perm_mods" => perm_mods(&mut file.items, &mut Rng::new(parts[1].parse().expect("seed"))),
            "perm_types" => perm_types(&mut file.items, &mut Rng::new(parts[1].parse().expect("seed"))),
            "insert_type" => {
                if !insert_type(&mut file.items, parts[1], parts[2], parts[3].parse().expect("k")) {
                    eprintln!("no bridge module to insert into");
                    std::process::exit(2);
                }
            }
            "remove_type" => remove_type(&mut file.items, parts[1]),
            "insert_shadow_module" => {
                if !insert_shadow_module(&mut file.items, parts[1].parse().expect("k"), &mut Rng::new(parts[2].parse().expect("seed"))) {
                    eprintln!("no bridge type to shadow");
                    std::process::exit(2);
                }
            }
            "remove_shadow_module" => remove_shadow_module(&mut file.items, parts[1].parse().expect("k")),
            "insert_nonbridge" => {
                let names = collect_bridge_type_names(&mut file.items);
                insert_nonbridge(&mut file.items, &mut Rng::new(parts[1].parse().expect("seed")), &names, 0, &mut counter)
            }
            "remove_nonbridge" => remove_nonbridge(&mut file.items),
            other => {
                eprintln!("unknown edit {}", other);
                std::process::exit(2);
            }
        }
    }
    let text = quote::quote!(#file).to_string();
    // one item per line keeps diffs of the *source* readable; the token stream is unchanged
    let out_path = out.expect("--out");
    std::fs::write(&out_path, text + "\n").expect("write");
    std::fs::write(format!("{}.canon", out_path), canonical(&file.items)).expect("write canon");
}
