//! Executor of `write-sim`: plays the buffer owner (the foreign side of `DiplomatWrite`) against the
//! real `impl fmt::Write for DiplomatWrite`, `diplomat_simple_write` and
//! `diplomat_buffer_write_*` of `$VERIF_REPO_DIR/runtime`, and checks the reference model after
//! every operation. Pure function of the trace: no PRNG, no clock, no addresses in the log.

use crate::trace::{Grow, Kind, Op, Trace};
use core::ffi::c_void;
use diplomat_runtime::DiplomatWrite;
use std::alloc::{alloc, dealloc, Layout};
use std::fmt::Write as _;
use std::panic::{catch_unwind, AssertUnwindSafe};

/// `#[repr(C)]` mirror of `DiplomatWrite`, field for field what `capi.h.jinja` declares for C.
#[repr(C)]
pub struct Mirror {
    pub context: *mut c_void,
    pub buf: *mut u8,
    pub len: usize,
    pub cap: usize,
    pub grow_failed: bool,
    pub flush: extern "C" fn(*mut DiplomatWrite),
    pub grow: extern "C" fn(*mut DiplomatWrite, usize) -> bool,
}

extern "C" {
    fn diplomat_simple_write(buf: *mut u8, buf_size: usize) -> DiplomatWrite;
    fn diplomat_buffer_write_get_bytes(this: &DiplomatWrite) -> *mut u8;
    fn diplomat_buffer_write_len(this: &DiplomatWrite) -> usize;
}

const MIRI: bool = cfg!(miri);
const CANARY: usize = if MIRI { 0 } else { 16 };
const CANARY_BYTE: u8 = 0xC7;
const FILL: u8 = 0xA5;
const DEAD: u8 = 0xDD;

/// One allocation handed to Rust as a buffer: `[CANARY][room bytes][CANARY]`.
struct Region {
    base: *mut u8,
    room: usize,
}

impl Region {
    fn new(room: usize) -> Region {
        let total = room + 2 * CANARY;
        assert!(total > 0);
        unsafe {
            let base = alloc(Layout::from_size_align(total, 1).unwrap());
            assert!(!base.is_null());
            if !MIRI {
                std::ptr::write_bytes(base, CANARY_BYTE, CANARY);
                std::ptr::write_bytes(base.add(CANARY), FILL, room);
                std::ptr::write_bytes(base.add(CANARY + room), CANARY_BYTE, CANARY);
            }
            Region { base, room }
        }
    }
    fn buf(&self) -> *mut u8 {
        unsafe { self.base.add(CANARY) }
    }
    fn canaries_ok(&self) -> bool {
        if MIRI {
            return true;
        }
        unsafe {
            let lo = std::slice::from_raw_parts(self.base, CANARY);
            let hi = std::slice::from_raw_parts(self.base.add(CANARY + self.room), CANARY);
            lo.iter().all(|b| *b == CANARY_BYTE) && hi.iter().all(|b| *b == CANARY_BYTE)
        }
    }
    /// bytes [from..room) still carry the fill pattern (never written)
    fn filler_ok(&self, from: usize) -> bool {
        if MIRI || from >= self.room {
            return true;
        }
        unsafe { std::slice::from_raw_parts(self.buf().add(from), self.room - from).iter().all(|b| *b == FILL) }
    }
    fn kill(&self) {
        if !MIRI {
            unsafe { std::ptr::write_bytes(self.buf(), DEAD, self.room) }
        }
    }
    fn dead_ok(&self) -> bool {
        if MIRI {
            return true;
        }
        unsafe { std::slice::from_raw_parts(self.buf(), self.room).iter().all(|b| *b == DEAD) }
    }
    fn free(self) {
        unsafe { dealloc(self.base, Layout::from_size_align(self.room + 2 * CANARY, 1).unwrap()) }
    }
}

#[derive(Clone, Debug)]
pub struct GrowCall {
    pub req: usize,
    pub len: usize,
    pub cap_before: usize,
    pub outcome: Grow,
    pub from_trace: bool,
    pub relocated: bool,
    pub cap_after: usize,
}

/// State of the simulated buffer owner; reached by Rust only through `context`.
struct Owner {
    cur: Option<Region>,
    cap: usize,
    room_extra: usize,
    graveyard: Vec<Region>,
    outcomes: Vec<Grow>,
    next: usize,
    calls: Vec<GrowCall>,
    flushes: usize,
}

extern "C" fn owner_flush(this: *mut DiplomatWrite) {
    unsafe {
        let m = this as *mut Mirror;
        let owner = &mut *((*m).context as *mut Owner);
        owner.flushes += 1;
    }
}

extern "C" fn owner_grow(this: *mut DiplomatWrite, req: usize) -> bool {
    unsafe {
        let m = this as *mut Mirror;
        let owner = &mut *((*m).context as *mut Owner);
        let len = (*m).len;
        let cap_before = owner.cap;
        let (outcome, from_trace) = match owner.outcomes.get(owner.next) {
            Some(o) => (*o, true),
            None => (Grow::Ok { slack: 0, relocate: true }, false),
        };
        owner.next += 1;
        match outcome {
            Grow::Fail => {
                owner.calls.push(GrowCall { req, len, cap_before, outcome, from_trace, relocated: false, cap_after: cap_before });
                false
            }
            Grow::Ok { slack, relocate } => {
                let new_cap = req.max(cap_before) + slack;
                let in_place = !relocate && owner.cur.as_ref().map(|r| new_cap <= r.room).unwrap_or(false);
                if !in_place {
                    let fresh = Region::new(new_cap + owner.room_extra);
                    let old = owner.cur.take().unwrap();
                    // copy what the owner knows to be content; clamp so that a corrupted `len`
                    // cannot make the *harness* read out of bounds
                    let n = len.min(old.room).min(fresh.room);
                    std::ptr::copy_nonoverlapping(old.buf(), fresh.buf(), n);
                    if MIRI {
                        old.free();
                    } else {
                        old.kill();
                        owner.graveyard.push(old);
                    }
                    (*m).buf = fresh.buf();
                    owner.cur = Some(fresh);
                }
                (*m).cap = new_cap;
                owner.cap = new_cap;
                owner.calls.push(GrowCall { req, len, cap_before, outcome, from_trace, relocated: !in_place, cap_after: new_cap });
                true
            }
        }
    }
}

#[derive(Clone, Debug, PartialEq, Eq)]
pub struct Violation {
    pub oracle: &'static str,
    pub step: usize,
    pub detail: String,
}

#[derive(Clone, Copy, Debug, Default)]
pub struct RunStats {
    pub ops: u64,
    pub writes: u64,
    pub grow_calls: u64,
    pub grow_fail: u64,
    pub grow_exact: u64,
    pub grow_more: u64,
    pub grow_reloc: u64,
    pub grow_inplace: u64,
    pub grow_default: u64,
    pub spurious_grow: u64,
    pub under_request: u64,
    pub write_after_fail: u64,
    pub flushes: u64,
    pub accesses: u64,
    pub access_failed: u64,
    pub exact_fit: u64,
    pub plus_one: u64,
    pub empty_chunk: u64,
    pub multibyte_chunk: u64,
    pub fixed_overflow: u64,
    pub fixed_tail_touched: u64,
    pub owned_grows: u64,
    pub alloc_fault_fired: u64,
    pub alloc_fault_recovered: u64,
    pub grow_after_failure: u64,
    pub double_frees: u64,
}

pub struct Outcome {
    pub log: String,
    pub violation: Option<Violation>,
    pub stats: RunStats,
    /// abstract (state, op, outcome) transition codes visited
    pub transitions: Vec<u32>,
}

struct Model {
    bytes: Vec<u8>,
    cap: usize,
    failed: bool,
}

fn abs_state(kind: Kind, len: usize, cap: usize, failed: bool, relocated: bool) -> u32 {
    let k = kind as u32;
    let l0 = (len == 0) as u32;
    let full = (len >= cap) as u32;
    (k << 8) | (l0 << 7) | (full << 6) | ((failed as u32) << 5) | ((relocated as u32) << 4)
}

/// Layout self-test: the mirror must describe the real struct (a mismatch is a harness error).
pub fn layout_selftest() -> Result<(), String> {
    if std::mem::size_of::<Mirror>() != std::mem::size_of::<DiplomatWrite>() {
        return Err(format!(
            "size_of Mirror {} != DiplomatWrite {}",
            std::mem::size_of::<Mirror>(),
            std::mem::size_of::<DiplomatWrite>()
        ));
    }
    unsafe {
        let r = Region::new(8);
        let w = diplomat_simple_write(r.buf(), 8);
        let m = &w as *const DiplomatWrite as *const Mirror;
        let ok = (*m).buf == r.buf() && (*m).len == 0 && ((*m).cap == 7 || (*m).cap == 8) && !(*m).grow_failed && (*m).context.is_null();
        drop(w);
        r.free();
        if !ok {
            return Err("mirror fields do not line up with diplomat_simple_write's result".into());
        }
    }
    Ok(())
}

pub fn execute(t: &Trace) -> Outcome {
    let mut out = Outcome { log: String::new(), violation: None, stats: RunStats::default(), transitions: vec![] };
    let _ = writeln!(out.log, "seed={} run={} kind={:?} cap={} room={} prefill={}", t.seed, t.run, t.kind, t.cap, t.room, t.prefill.len());
    match t.kind {
        Kind::Caller => exec_caller(t, &mut out),
        Kind::Fixed => exec_fixed(t, &mut out),
        Kind::Owned => exec_owned(t, &mut out),
    }
    if let Some(v) = &out.violation {
        let _ = writeln!(out.log, "VIOLATION oracle={} step={} {}", v.oracle, v.step, v.detail);
    }
    out
}

fn chunk_of(op: &Op) -> Option<String> {
    match op {
        Op::Write(c) => Some(c.clone()),
        Op::Char(c) => Some(c.to_string()),
        _ => None,
    }
}

fn do_write(w: &mut DiplomatWrite, op: &Op) -> Result<(), String> {
    let r = catch_unwind(AssertUnwindSafe(|| match op {
        Op::Write(c) => w.write_str(c),
        Op::Char(c) => w.write_char(*c),
        _ => unreachable!(),
    }));
    match r {
        Ok(Ok(())) => Ok(()),
        Ok(Err(_)) => Err("fmt::Error returned".into()),
        Err(p) => Err(format!("panic: {}", panic_msg(&p))),
    }
}

fn panic_msg(p: &Box<dyn std::any::Any + Send>) -> String {
    if let Some(s) = p.downcast_ref::<&str>() {
        s.to_string()
    } else if let Some(s) = p.downcast_ref::<String>() {
        s.clone()
    } else {
        "?".into()
    }
}

fn note_chunk(stats: &mut RunStats, c: &str, len: usize, cap: usize) {
    stats.writes += 1;
    if c.is_empty() {
        stats.empty_chunk += 1;
    }
    if c.len() != c.chars().count() {
        stats.multibyte_chunk += 1;
    }
    if len + c.len() == cap {
        stats.exact_fit += 1;
    }
    if len + c.len() == cap + 1 {
        stats.plus_one += 1;
    }
}

fn exec_caller(t: &Trace, out: &mut Outcome) {
    let room_extra = if MIRI { 0 } else { t.room };
    let first = Region::new(t.cap + room_extra);
    unsafe { std::ptr::copy_nonoverlapping(t.prefill.as_ptr(), first.buf(), t.prefill.len()) };
    let buf0 = first.buf();
    let owner = Box::into_raw(Box::new(Owner {
        cur: Some(first),
        cap: t.cap,
        room_extra,
        graveyard: vec![],
        outcomes: t.grows.clone(),
        next: 0,
        calls: vec![],
        flushes: 0,
    }));
    let m: *mut Mirror = Box::into_raw(Box::new(Mirror {
        context: owner as *mut c_void,
        buf: buf0,
        len: t.prefill.len(),
        cap: t.cap,
        grow_failed: false,
        flush: owner_flush,
        grow: owner_grow,
    }));
    let mut model = Model { bytes: t.prefill.clone(), cap: t.cap, failed: false };
    let mut relocated = false;
    let mut viol: Option<Violation> = None;

    'ops: for (step, op) in t.ops.iter().enumerate() {
        out.stats.ops += 1;
        let calls_before = unsafe { (*owner).calls.len() };
        let flushes_before = unsafe { (*owner).flushes };
        let st_before = abs_state(t.kind, model.bytes.len(), model.cap, model.failed, relocated);
        let mut opcode = 0u32;
        let mut outcode = 0u32;
        match op {
            Op::Write(_) | Op::Char(_) => {
                let c = chunk_of(op).unwrap();
                opcode = if matches!(op, Op::Char(_)) { 2 } else { 1 };
                note_chunk(&mut out.stats, &c, model.bytes.len(), model.cap);
                if model.failed {
                    out.stats.write_after_fail += 1;
                }
                let w: &mut DiplomatWrite = unsafe { &mut *(m as *mut DiplomatWrite) };
                let res = do_write(w, op);
                let calls: Vec<GrowCall> = unsafe { (&(*owner).calls)[calls_before..].to_vec() };
                let _ = write!(out.log, "{} w{} ", step, c.len());
                for g in &calls {
                    out.stats.grow_calls += 1;
                    if !g.from_trace {
                        out.stats.grow_default += 1;
                    }
                    match g.outcome {
                        Grow::Fail => {
                            out.stats.grow_fail += 1;
                            let _ = write!(out.log, "grow({})=fail ", g.req);
                        }
                        Grow::Ok { slack, .. } => {
                            if slack == 0 {
                                out.stats.grow_exact += 1
                            } else {
                                out.stats.grow_more += 1
                            }
                            if g.relocated {
                                out.stats.grow_reloc += 1;
                                relocated = true;
                            } else {
                                out.stats.grow_inplace += 1
                            }
                            let _ = write!(out.log, "grow({})=ok cap={}{} ", g.req, g.cap_after, if g.relocated { " reloc" } else { "" });
                        }
                    }
                }
                if let Err(e) = res {
                    viol = Some(Violation { oracle: "PANIC", step, detail: e });
                    break 'ops;
                }
                // ---- reference model, driven by the grow calls the real code actually made
                if model.failed {
                    // asking the owner again after a failure is pointless but not, by itself, against the
                    // property: what must not happen is that anything changes (len, bytes, flag), and the
                    // invariants below check exactly that against the unchanged model
                    if !calls.is_empty() {
                        out.stats.grow_after_failure += 1;
                    }
                    outcode = 1;
                } else {
                    let need = model.bytes.len() + c.len();
                    if !calls.is_empty() && need <= model.cap {
                        out.stats.spurious_grow += 1;
                    }
                    let mut failed_now = false;
                    for (i, g) in calls.iter().enumerate() {
                        if failed_now {
                            // (see above) counted only; the first failed growth stays final for the model
                            let _ = i;
                            out.stats.grow_after_failure += 1;
                            continue;
                        }
                        match g.outcome {
                            Grow::Fail => failed_now = true,
                            Grow::Ok { .. } => {
                                if g.req < need && need > g.cap_before {
                                    out.stats.under_request += 1;
                                }
                                model.cap = g.cap_after;
                            }
                        }
                    }
                    if failed_now {
                        model.failed = true;
                        outcode = 2;
                    } else {
                        // no failed growth happened, so the whole chunk must be there
                        model.bytes.extend_from_slice(c.as_bytes());
                        outcode = if calls.is_empty() { 3 } else if calls.iter().any(|g| g.relocated) { 4 } else { 5 };
                    }
                }
            }
            Op::Flush => {
                opcode = 3;
                out.stats.flushes += 1;
                let w: &mut DiplomatWrite = unsafe { &mut *(m as *mut DiplomatWrite) };
                let r = catch_unwind(AssertUnwindSafe(|| w.flush()));
                let _ = write!(out.log, "{} flush ", step);
                if r.is_err() {
                    viol = Some(Violation { oracle: "PANIC", step, detail: "flush panicked".into() });
                    break 'ops;
                }
                let n = unsafe { (*owner).flushes } - flushes_before;
                if n == 0 {
                    viol = Some(Violation { oracle: "I8-flush-count", step, detail: "DiplomatWrite::flush did not invoke the owner's flush".into() });
                    break 'ops;
                }
            }
            Op::Access => {
                opcode = 4;
                out.stats.accesses += 1;
                let (p, l) = unsafe {
                    let w: &DiplomatWrite = &*(m as *const DiplomatWrite);
                    (diplomat_buffer_write_get_bytes(w), diplomat_buffer_write_len(w))
                };
                let _ = write!(out.log, "{} access null={} len={} ", step, p.is_null(), l);
                if model.failed {
                    out.stats.access_failed += 1;
                    outcode = 1;
                    if !p.is_null() || l != 0 {
                        viol = Some(Violation { oracle: "I6-accessor", step, detail: format!("after a failed grow the accessors returned null={} len={}", p.is_null(), l) });
                        break 'ops;
                    }
                } else {
                    let cur = unsafe { (*m).buf };
                    if p != cur || l != model.bytes.len() {
                        viol = Some(Violation { oracle: "I6-accessor", step, detail: format!("accessors returned same_buf={} len={} expected len={}", p == cur, l, model.bytes.len()) });
                        break 'ops;
                    }
                }
            }
        }
        out.transitions.push((st_before << 8) | (opcode << 4) | outcode);
        if let Some(v) = check_caller(step, m, owner, &model) {
            viol = Some(v);
            break 'ops;
        }
        let (rl, rc, rf) = unsafe { ((*m).len, (*m).cap, (*m).grow_failed) };
        let _ = writeln!(out.log, "| len={} cap={} failed={}", rl, rc, rf);
    }
    out.violation = viol;
    unsafe {
        let owner = Box::from_raw(owner);
        if let Some(r) = owner.cur {
            r.free();
        }
        for r in owner.graveyard {
            r.free();
        }
        drop(Box::from_raw(m));
    }
}

fn check_caller(step: usize, m: *mut Mirror, owner: *mut Owner, model: &Model) -> Option<Violation> {
    unsafe {
        let o = &*owner;
        let cur = o.cur.as_ref().unwrap();
        if !cur.canaries_ok() {
            return Some(Violation { oracle: "I4-canary", step, detail: "bytes outside the allocation were written".into() });
        }
        if !cur.filler_ok(o.cap) {
            return Some(Violation { oracle: "I4-beyond-cap", step, detail: format!("a byte at index >= cap ({}) was written", o.cap) });
        }
        for g in &o.graveyard {
            if !g.dead_ok() || !g.canaries_ok() {
                return Some(Violation { oracle: "I4-stale-buffer", step, detail: "a buffer released by grow() was written afterwards".into() });
            }
        }
        if (*m).buf != cur.buf() {
            return Some(Violation { oracle: "I4-buf-forged", step, detail: "buf no longer points at the owner's buffer".into() });
        }
        let (rl, rf) = ((*m).len, (*m).grow_failed);
        if rf != model.failed {
            return Some(Violation { oracle: "I2-flag", step, detail: format!("grow_failed={} expected {}", rf, model.failed) });
        }
        if rl != model.bytes.len() {
            return Some(Violation { oracle: "I1-len", step, detail: format!("len={} expected {}", rl, model.bytes.len()) });
        }
        if rl > cur.room {
            return Some(Violation { oracle: "I1-len", step, detail: "len exceeds the buffer".into() });
        }
        let real = std::slice::from_raw_parts(cur.buf(), rl);
        if real != &model.bytes[..] {
            return Some(Violation { oracle: "I1-bytes", step, detail: format!("buffer holds {:?} expected {:?}", String::from_utf8_lossy(real), String::from_utf8_lossy(&model.bytes)) });
        }
    }
    None
}

fn exec_fixed(t: &Trace, out: &mut Outcome) {
    let n = t.cap;
    let region = Region::new(n);
    if MIRI {
        // the caller's buffer is initialised memory in C as well (stack arrays are read back)
        unsafe { std::ptr::write_bytes(region.buf(), FILL, n) };
    }
    let mut w: DiplomatWrite = unsafe { diplomat_simple_write(region.buf(), n) };
    let mut model = Model { bytes: vec![], cap: n - 1, failed: false };
    let mut viol: Option<Violation> = None;
    'ops: for (step, op) in t.ops.iter().enumerate() {
        out.stats.ops += 1;
        let st_before = abs_state(t.kind, model.bytes.len(), model.cap, model.failed, false);
        let mut opcode = 0u32;
        let mut outcode = 0u32;
        let mut flushed = false;
        match op {
            Op::Write(_) | Op::Char(_) => {
                let c = chunk_of(op).unwrap();
                opcode = if matches!(op, Op::Char(_)) { 2 } else { 1 };
                note_chunk(&mut out.stats, &c, model.bytes.len(), model.cap);
                if model.failed {
                    out.stats.write_after_fail += 1;
                }
                let res = do_write(&mut w, op);
                let _ = write!(out.log, "{} w{} ", step, c.len());
                if let Err(e) = res {
                    viol = Some(Violation { oracle: "PANIC", step, detail: e });
                    break 'ops;
                }
                if model.failed {
                    outcode = 1;
                } else if model.bytes.len() + c.len() > model.cap {
                    model.failed = true;
                    out.stats.fixed_overflow += 1;
                    outcode = 2;
                } else {
                    model.bytes.extend_from_slice(c.as_bytes());
                    outcode = 3;
                }
            }
            Op::Flush => {
                opcode = 3;
                out.stats.flushes += 1;
                let r = catch_unwind(AssertUnwindSafe(|| w.flush()));
                let _ = write!(out.log, "{} flush ", step);
                if r.is_err() {
                    viol = Some(Violation { oracle: "PANIC", step, detail: "flush panicked".into() });
                    break 'ops;
                }
                flushed = true;
            }
            Op::Access => {
                opcode = 4;
            }
        }
        out.transitions.push((st_before << 8) | (opcode << 4) | outcode);
        let m = &w as *const DiplomatWrite as *const Mirror;
        let (rl, rc, rf, rb) = unsafe { ((*m).len, (*m).cap, (*m).grow_failed, (*m).buf) };
        if !region.canaries_ok() {
            viol = Some(Violation { oracle: "I4-canary", step, detail: "bytes outside the caller's fixed buffer were written".into() });
            break 'ops;
        }
        if rb != region.buf() {
            viol = Some(Violation { oracle: "I4-buf-forged", step, detail: "buf no longer points at the caller's buffer".into() });
            break 'ops;
        }
        if rf != model.failed {
            viol = Some(Violation { oracle: "I2-flag", step, detail: format!("grow_failed={} expected {}", rf, model.failed) });
            break 'ops;
        }
        if rl != model.bytes.len() || rl > n {
            viol = Some(Violation { oracle: "I1-len", step, detail: format!("len={} expected {}", rl, model.bytes.len()) });
            break 'ops;
        }
        let real = unsafe { std::slice::from_raw_parts(region.buf(), rl) };
        if real != &model.bytes[..] {
            viol = Some(Violation { oracle: "I1-bytes", step, detail: format!("buffer holds {:?} expected {:?}", String::from_utf8_lossy(real), String::from_utf8_lossy(&model.bytes)) });
            break 'ops;
        }
        if flushed {
            if rl + 1 > n {
                viol = Some(Violation { oracle: "I7-nul", step, detail: format!("no room for the terminator: len={} buf_size={}", rl, n) });
                break 'ops;
            }
            let b = unsafe { *region.buf().add(rl) };
            if b != 0 {
                viol = Some(Violation { oracle: "I7-nul", step, detail: format!("buf[len] = {:#x} after flush, expected NUL", b) });
                break 'ops;
            }
            // probe only: bytes behind the terminator
            if !region.filler_ok(rl + 1) && !MIRI {
                out.stats.fixed_tail_touched += 1;
            }
        }
        let _ = writeln!(out.log, "| len={} cap={} failed={}", rl, rc, rf);
    }
    out.violation = viol;
    drop(w);
    region.free();
}

fn exec_owned(t: &Trace, out: &mut Outcome) {
    let fault_mode = t.alloc_fail_at.is_some() && !MIRI;
    let mut remaining: i64 = t.alloc_fail_at.map(|k| k as i64).unwrap_or(-1);
    if fault_mode {
        simcore::faultalloc::track(true);
    }
    let p: *mut DiplomatWrite = diplomat_runtime::diplomat_buffer_write_create(t.cap);
    let m = p as *mut Mirror;
    let mut model = Model { bytes: vec![], cap: t.cap, failed: false };
    let mut viol: Option<Violation> = None;
    'ops: for (step, op) in t.ops.iter().enumerate() {
        out.stats.ops += 1;
        let st_before = abs_state(t.kind, model.bytes.len(), model.cap, model.failed, false);
        let mut opcode = 0u32;
        let mut outcode = 0u32;
        match op {
            Op::Write(_) | Op::Char(_) => {
                let c = chunk_of(op).unwrap();
                opcode = if matches!(op, Op::Char(_)) { 2 } else { 1 };
                note_chunk(&mut out.stats, &c, model.bytes.len(), model.cap);
                let cap_before = unsafe { (*m).cap };
                let fired_before = simcore::faultalloc::fired();
                if fault_mode && remaining >= 0 {
                    simcore::faultalloc::arm(remaining);
                }
                let res = do_write(unsafe { &mut *p }, op);
                if fault_mode {
                    remaining = simcore::faultalloc::disarm();
                }
                let fault_fired = simcore::faultalloc::fired() != fired_before;
                let _ = write!(out.log, "{} w{} ", step, c.len());
                if fault_fired {
                    // the allocation failed and the process is still alive. The writer may report the
                    // failure (sticky-flag rules apply from here on) or recover, e.g. by retrying with a
                    // smaller request (then the chunk must be there in full): both are legitimate, so the
                    // model follows the flag and every other invariant keeps being checked against it
                    out.stats.alloc_fault_fired += 1;
                    remaining = -1;
                    model.failed = unsafe { (*m).grow_failed };
                    if model.failed {
                        let _ = write!(out.log, "allocation-failed ");
                    } else {
                        out.stats.alloc_fault_recovered += 1;
                        let _ = write!(out.log, "allocation-failed-recovered ");
                    }
                }
                if let Err(e) = res {
                    viol = Some(Violation { oracle: "PANIC", step, detail: e });
                    break 'ops;
                }
                let cap_after = unsafe { (*m).cap };
                if cap_after != cap_before {
                    out.stats.owned_grows += 1;
                    outcode = 4;
                } else {
                    outcode = 3;
                }
                model.cap = cap_after;
                if !model.failed {
                    model.bytes.extend_from_slice(c.as_bytes());
                }
            }
            Op::Flush => {
                opcode = 3;
                out.stats.flushes += 1;
                let r = catch_unwind(AssertUnwindSafe(|| unsafe { (*p).flush() }));
                let _ = write!(out.log, "{} flush ", step);
                if r.is_err() {
                    viol = Some(Violation { oracle: "PANIC", step, detail: "flush panicked".into() });
                    break 'ops;
                }
            }
            Op::Access => {
                opcode = 4;
                out.stats.accesses += 1;
            }
        }
        out.transitions.push((st_before << 8) | (opcode << 4) | outcode);
        // the accessors are this writer kind's public observation channel: use them on every step
        let (ab, al) = unsafe { (diplomat_buffer_write_get_bytes(&*p), diplomat_buffer_write_len(&*p)) };
        let (rl, rc, rf, rb) = unsafe { ((*m).len, (*m).cap, (*m).grow_failed, (*m).buf) };
        if rf != model.failed {
            viol = Some(Violation { oracle: "I2-flag", step, detail: format!("grow_failed={} on a Rust-owned writer, expected {}", rf, model.failed) });
            break 'ops;
        }
        if model.failed {
            if !ab.is_null() || al != 0 {
                viol = Some(Violation { oracle: "I6-accessor", step, detail: format!("after a failed allocation the accessors returned null={} len={}", ab.is_null(), al) });
                break 'ops;
            }
            let _ = writeln!(out.log, "| failed=true");
            continue;
        }
        if ab.is_null() || ab != rb || al != model.bytes.len() {
            viol = Some(Violation { oracle: "I6-accessor", step, detail: format!("get_bytes null={} len={} expected len={}", ab.is_null(), al, model.bytes.len()) });
            break 'ops;
        }
        if rl > rc {
            viol = Some(Violation { oracle: "I4-beyond-cap", step, detail: format!("len={} exceeds cap={} of the Rust-owned buffer: bytes were written past the allocation", rl, rc) });
            break 'ops;
        }
        if rl != model.bytes.len() {
            viol = Some(Violation { oracle: "I1-len", step, detail: format!("len={} cap={} expected len={}", rl, rc, model.bytes.len()) });
            break 'ops;
        }
        let real = unsafe { std::slice::from_raw_parts(ab, al) };
        if real != &model.bytes[..] {
            viol = Some(Violation { oracle: "I1-bytes", step, detail: format!("buffer holds {:?} expected {:?}", String::from_utf8_lossy(real), String::from_utf8_lossy(&model.bytes)) });
            break 'ops;
        }
        let _ = writeln!(out.log, "| len={} cap>=len={} failed={}", rl, rc >= rl, rf);
    }
    out.violation = viol;
    unsafe { diplomat_runtime::diplomat_buffer_write_destroy(p) };
    if fault_mode {
        simcore::faultalloc::track(false);
        let df = simcore::faultalloc::double_frees();
        out.stats.double_frees = df as u64;
        if df > 0 && out.violation.is_none() {
            out.violation = Some(Violation { oracle: "O4-double-free", step: t.ops.len(), detail: format!("{} block(s) of the Rust-owned writer were released twice (create / failed growth / destroy)", df) });
        }
    }
}
