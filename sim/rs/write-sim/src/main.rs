//! write-sim — deterministic simulation of the DiplomatWrite buffer-owner protocol (property C12).
//!
//!   write-sim run   --seed S --from A --to B [--threads T] [--out DIR] [--distinct-shapes N] [--dump-hashes F]
//!   write-sim enum  --tier quick|thorough [--threads T] [--out DIR]
//!   write-sim replay FILE
//!   write-sim gen   --seed S --run I
//!   write-sim selftest
//!
//! exit 0 = no violation, 1 = violation (a `VIOLATION property=C12 replay=...` line is printed),
//! 2 = harness error.

mod exec;
mod trace;
use simcore::faultalloc;

#[cfg(not(miri))]
#[global_allocator]
static ALLOC: faultalloc::FaultAlloc = faultalloc::FaultAlloc;

use exec::{execute, Outcome, RunStats, Violation};
use simcore::{ddmin, fnv1a64, json_str, parse_args, Counters};
use std::collections::{BTreeMap, BTreeSet};
use trace::{gen_trace, Grow, Kind, Op, Trace};

const PROP: &str = "C12";

#[derive(Default)]
struct Agg {
    runs: u64,
    counters: Counters,
    transitions: BTreeSet<u32>,
    trace_hashes: Vec<u64>,
    shape_hashes: Vec<u64>,
    nontrivial_hashes: Vec<u64>,
    log_digest: u64,
    run_hashes: Vec<(u64, u64)>,
    first_violation: Option<(u64, Trace, Violation)>,
    samples: Vec<String>,
    enum_leaves: u64,
    enum_partial: u64,
}

fn add_stats(c: &mut Counters, kind: Kind, s: &RunStats) {
    let k = match kind {
        Kind::Caller => "runs_caller_supplied",
        Kind::Fixed => "runs_fixed_buffer",
        Kind::Owned => "runs_rust_owned",
    };
    c.inc(k);
    let pairs: [(&str, u64); 23] = [
        ("ops", s.ops),
        ("writes", s.writes),
        ("grow_calls", s.grow_calls),
        ("fault_grow_fail_fired", s.grow_fail),
        ("fault_grow_exact_fired", s.grow_exact),
        ("fault_grow_more_fired", s.grow_more),
        ("fault_grow_relocate_fired", s.grow_reloc),
        ("fault_grow_in_place_fired", s.grow_inplace),
        ("grow_outcome_defaulted", s.grow_default),
        ("probe_spurious_grow", s.spurious_grow),
        ("probe_under_request", s.under_request),
        ("probe_grow_called_after_failure", s.grow_after_failure),
        ("probe_write_after_failure", s.write_after_fail),
        ("flushes", s.flushes),
        ("accesses", s.accesses),
        ("probe_access_after_failure", s.access_failed),
        ("probe_chunk_exact_fit", s.exact_fit),
        ("probe_chunk_one_past_cap", s.plus_one),
        ("probe_empty_chunk", s.empty_chunk),
        ("probe_multibyte_chunk", s.multibyte_chunk),
        ("fault_fixed_overflow_fired", s.fixed_overflow),
        ("probe_fixed_tail_touched", s.fixed_tail_touched),
        ("probe_rust_owned_grew", s.owned_grows),
    ];
    for (k, v) in pairs {
        if v > 0 {
            c.add(k, v);
        }
    }
}

fn is_nontrivial(t: &Trace, s: &RunStats) -> bool {
    // at least one non-empty write, and either a growth decision, an overflow, or a boundary hit
    let _ = t;
    s.writes > 0 && (s.grow_calls > 0 || s.fixed_overflow > 0 || s.owned_grows > 0 || s.exact_fit > 0 || s.plus_one > 0)
}

fn absorb(agg: &mut Agg, t: &Trace, out: &Outcome, keep_hashes: bool) {
    agg.runs += 1;
    add_stats(&mut agg.counters, t.kind, &out.stats);
    for tr in &out.transitions {
        agg.transitions.insert(*tr);
    }
    let text = t.to_text();
    // distinctness is measured on the trace without its (seed, run) header line
    let body: String = text.lines().filter(|l| !l.starts_with("seed ")).collect::<Vec<_>>().join("\n");
    let th = fnv1a64(body.as_bytes());
    agg.trace_hashes.push(th);
    agg.shape_hashes.push(fnv1a64(t.shape().as_bytes()));
    if is_nontrivial(t, &out.stats) {
        agg.nontrivial_hashes.push(th);
    }
    let lh = fnv1a64(out.log.as_bytes());
    agg.log_digest = agg.log_digest.wrapping_add(lh.rotate_left((t.run % 61) as u32) ^ t.run.wrapping_mul(0x9e3779b97f4a7c15));
    if keep_hashes {
        agg.run_hashes.push((t.run, lh));
    }
    if agg.samples.len() < 3 && is_nontrivial(t, &out.stats) {
        agg.samples.push(text);
    }
    if let Some(v) = &out.violation {
        let better = match &agg.first_violation {
            None => true,
            Some((r, _, _)) => t.run < *r,
        };
        if better {
            agg.first_violation = Some((t.run, t.clone(), v.clone()));
        }
    }
}

fn merge(into: &mut Agg, from: Agg) {
    into.runs += from.runs;
    into.counters.merge(&from.counters);
    into.transitions.extend(from.transitions);
    into.trace_hashes.extend(from.trace_hashes);
    into.shape_hashes.extend(from.shape_hashes);
    into.nontrivial_hashes.extend(from.nontrivial_hashes);
    into.log_digest = into.log_digest.wrapping_add(from.log_digest);
    into.run_hashes.extend(from.run_hashes);
    into.enum_leaves += from.enum_leaves;
    into.enum_partial += from.enum_partial;
    for s in from.samples {
        if into.samples.len() < 3 {
            into.samples.push(s);
        }
    }
    if let Some((r, t, v)) = from.first_violation {
        let better = match &into.first_violation {
            None => true,
            Some((r0, _, _)) => r < *r0,
        };
        if better {
            into.first_violation = Some((r, t, v));
        }
    }
}

fn distinct(v: &mut Vec<u64>) -> u64 {
    v.sort_unstable();
    v.dedup();
    v.len() as u64
}

// ---------------------------------------------------------------------------------------------
// minimisation

fn same_class(t: &Trace, oracle: &str) -> bool {
    match execute(t).violation {
        Some(v) => v.oracle == oracle,
        None => false,
    }
}

fn minimise(orig: &Trace, oracle: &'static str) -> Trace {
    let mut budget = 2000usize;
    let mut cur = orig.clone();
    // 1. operations
    {
        let base = cur.clone();
        let ops = ddmin(&cur.ops, &mut budget, &mut |cand: &[Op]| {
            let mut t = base.clone();
            t.ops = cand.to_vec();
            same_class(&t, oracle)
        });
        cur.ops = ops;
    }
    // 2. fault list
    {
        let base = cur.clone();
        let grows = ddmin(&cur.grows, &mut budget, &mut |cand: &[Grow]| {
            let mut t = base.clone();
            t.grows = cand.to_vec();
            same_class(&t, oracle)
        });
        cur.grows = grows;
    }
    // 3. simpler faults: slack -> 0, in-place -> relocate stays as is if needed
    for i in 0..cur.grows.len() {
        if budget == 0 {
            break;
        }
        if let Grow::Ok { slack, relocate } = cur.grows[i] {
            if slack != 0 {
                let mut t = cur.clone();
                t.grows[i] = Grow::Ok { slack: 0, relocate };
                budget -= 1;
                if same_class(&t, oracle) {
                    cur = t;
                }
            }
        }
    }
    // 4. shrink chunks
    for i in 0..cur.ops.len() {
        loop {
            if budget == 0 {
                break;
            }
            let c = match &cur.ops[i] {
                Op::Write(c) if !c.is_empty() => c.clone(),
                _ => break,
            };
            let mut done = true;
            let mut cands: Vec<String> = vec![];
            let chars: Vec<char> = c.chars().collect();
            cands.push(chars[..chars.len() / 2].iter().collect());
            cands.push(chars[..chars.len() - 1].iter().collect());
            cands.push("a".repeat(c.len()));
            for cand in cands {
                if cand == c || budget == 0 {
                    continue;
                }
                let mut t = cur.clone();
                t.ops[i] = Op::Write(cand);
                budget -= 1;
                if same_class(&t, oracle) {
                    cur = t;
                    done = false;
                    break;
                }
            }
            if done {
                break;
            }
        }
    }
    // 5. shrink parameters
    loop {
        if budget == 0 {
            break;
        }
        let mut progressed = false;
        let mut cands: Vec<Trace> = vec![];
        if !cur.prefill.is_empty() {
            let mut t = cur.clone();
            t.prefill.pop();
            cands.push(t);
        }
        if cur.room > 0 {
            let mut t = cur.clone();
            t.room = 0;
            cands.push(t);
        }
        let min_cap = if cur.kind == Kind::Owned { 0 } else { 1 };
        if cur.cap > min_cap && cur.cap > cur.prefill.len() {
            let mut t = cur.clone();
            t.cap -= 1;
            cands.push(t);
        }
        for t in cands {
            if budget == 0 {
                break;
            }
            budget -= 1;
            if same_class(&t, oracle) {
                cur = t;
                progressed = true;
                break;
            }
        }
        if !progressed {
            break;
        }
    }
    cur
}

fn report_violation(out_dir: &str, tag: &str, t: &Trace, v: &Violation) -> String {
    let min = minimise(t, v.oracle);
    let min_out = execute(&min);
    let mut text = min.to_text();
    text.push_str(&format!("# property {}\n# oracle {}\n# original: seed {} run {} ({} ops, {} grow outcomes); minimised to {} ops, {} grow outcomes\n", PROP, v.oracle, t.seed, t.run, t.ops.len(), t.grows.len(), min.ops.len(), min.grows.len()));
    for l in min_out.log.lines() {
        text.push_str("# log: ");
        text.push_str(l);
        text.push('\n');
    }
    if out_dir == "-" {
        println!("-----BEGIN REPLAY-----\n{}-----END REPLAY-----", text);
        println!("-----BEGIN ORIGINAL-----\n{}-----END ORIGINAL-----", t.to_text());
        return "-".into();
    }
    std::fs::create_dir_all(out_dir).ok();
    let path = format!("{}/{}-{}.trace", out_dir, PROP, tag);
    std::fs::write(&path, &text).expect("write replay");
    std::fs::write(format!("{}/{}-{}.orig.trace", out_dir, PROP, tag), t.to_text()).ok();
    path
}

// ---------------------------------------------------------------------------------------------
// sampled runs

fn cmd_run(kv: &BTreeMap<String, String>) -> i32 {
    let seed: u64 = kv.get("seed").map(|s| s.parse().expect("seed")).unwrap_or(simcore::DEFAULT_SEED);
    let from: u64 = kv.get("from").map(|s| s.parse().unwrap()).unwrap_or(0);
    let to: u64 = kv.get("to").map(|s| s.parse().unwrap()).unwrap_or(1000);
    let threads: u64 = kv.get("threads").map(|s| s.parse().unwrap()).unwrap_or(1).max(1);
    let out_dir = kv.get("out").cloned().unwrap_or_else(|| "-".into());
    let distinct_shapes: Option<u64> = kv.get("distinct-shapes").map(|s| s.parse().unwrap());
    let keep_hashes = kv.contains_key("dump-hashes");
    let miri = cfg!(miri) || kv.contains_key("miri-shapes");

    if let Err(e) = exec::layout_selftest() {
        eprintln!("HARNESS-ERROR layout selftest: {}", e);
        return 2;
    }
    println!("SEED {}", seed);
    let mut agg = Agg::default();
    if let Some(n) = distinct_shapes {
        // single-threaded: execute only the first trace of every new shape until n were run
        let mut seen = BTreeSet::new();
        let mut run = from;
        while (seen.len() as u64) < n && run < to {
            let t = gen_trace(seed, run, miri);
            run += 1;
            if !seen.insert(t.shape()) {
                continue;
            }
            let out = execute(&t);
            absorb(&mut agg, &t, &out, keep_hashes);
            if agg.first_violation.is_some() {
                break;
            }
        }
    } else {
        let parts: Vec<Agg> = std::thread::scope(|s| {
            let hs: Vec<_> = (0..threads)
                .map(|ti| {
                    s.spawn(move || {
                        let mut a = Agg::default();
                        let mut run = from + ti;
                        while run < to {
                            let t = gen_trace(seed, run, miri);
                            let out = execute(&t);
                            absorb(&mut a, &t, &out, keep_hashes);
                            run += threads;
                        }
                        a
                    })
                })
                .collect();
            hs.into_iter().map(|h| h.join().expect("worker panicked")).collect()
        });
        for p in parts {
            merge(&mut agg, p);
        }
    }
    finish(agg, seed, &out_dir, kv.get("dump-hashes"), "sampled")
}

fn finish(mut agg: Agg, seed: u64, out_dir: &str, dump: Option<&String>, mode: &str) -> i32 {
    let mut code = 0;
    let mut replay = String::new();
    let mut oracle = String::new();
    if let Some((run, t, v)) = agg.first_violation.take() {
        let tag = format!("{}-{}-{}", mode, seed, run);
        replay = report_violation(out_dir, &tag, &t, &v);
        oracle = v.oracle.to_string();
        println!("VIOLATION property={} replay={} oracle={} seed={} run={} step={} detail={}", PROP, replay, v.oracle, t.seed, t.run, v.step, json_str(&v.detail));
        code = 1;
    }
    if let Some(f) = dump {
        agg.run_hashes.sort();
        let mut s = String::new();
        for (r, h) in &agg.run_hashes {
            s.push_str(&format!("{} {:016x}\n", r, h));
        }
        std::fs::write(f, s).expect("dump hashes");
    }
    let d_traces = distinct(&mut agg.trace_hashes);
    let d_shapes = distinct(&mut agg.shape_hashes);
    let d_nontrivial = distinct(&mut agg.nontrivial_hashes);
    let samples: Vec<String> = agg.samples.iter().map(|s| json_str(s)).collect();
    println!(
        "STATS {{\"mode\":{},\"seed\":{},\"runs\":{},\"distinct_traces\":{},\"distinct_shapes\":{},\"distinct_nontrivial\":{},\"distinct_transitions\":{},\"log_digest\":\"{:016x}\",\"enum_complete_fault_sequences\":{},\"enum_partial_prefixes\":{},\"violations\":{},\"replay\":{},\"oracle\":{},\"counters\":{},\"samples\":[{}]}}",
        json_str(mode),
        seed,
        agg.runs,
        d_traces,
        d_shapes,
        d_nontrivial,
        agg.transitions.len(),
        agg.log_digest,
        agg.enum_leaves,
        agg.enum_partial,
        if code == 1 { 1 } else { 0 },
        json_str(&replay),
        json_str(&oracle),
        agg.counters.to_json(),
        samples.join(",")
    );
    code
}

// ---------------------------------------------------------------------------------------------
// enumeration of small fault spaces (level: fault_enumeration)

fn chunk_for(n: usize, pos: usize) -> String {
    match n {
        0 => String::new(),
        1 => ((b'a' + (pos % 26) as u8) as char).to_string(),
        2 => "é".into(),
        3 => "€".into(),
        4 => "𝄞".into(),
        5 => "ab€".into(),
        _ => {
            let mut s = String::from("é");
            while s.len() < n {
                s.push((b'a' + ((pos + s.len()) % 26) as u8) as char);
            }
            s
        }
    }
}

struct EnumCfg {
    lens: Vec<usize>,
    max_len: usize,
    caps: Vec<usize>,
    fixed_ns: Vec<usize>,
    opts: Vec<Grow>,
    room: usize,
}

/// all sequences over `alphabet` of length 0..=max_len, in a fixed order
fn sequences(alphabet: usize, max_len: usize) -> Vec<Vec<usize>> {
    let mut out: Vec<Vec<usize>> = vec![vec![]];
    let mut layer: Vec<Vec<usize>> = vec![vec![]];
    for _ in 0..max_len {
        let mut next = vec![];
        for s in &layer {
            for a in 0..alphabet {
                let mut n = s.clone();
                n.push(a);
                next.push(n);
            }
        }
        out.extend(next.iter().cloned());
        layer = next;
    }
    out
}

fn explore_faults(agg: &mut Agg, base: &Trace, prefix: &mut Vec<Grow>, opts: &[Grow], counter: &mut u64) {
    let mut t = base.clone();
    t.grows = prefix.clone();
    t.run = *counter;
    let out = execute(&t);
    if out.stats.grow_default > 0 && out.violation.is_none() {
        // the run asked for more outcomes than the prefix holds: branch on the next outcome
        agg.enum_partial += 1;
        for o in opts {
            prefix.push(*o);
            explore_faults(agg, base, prefix, opts, counter);
            prefix.pop();
            if agg.first_violation.is_some() {
                return;
            }
        }
    } else {
        *counter += 1;
        agg.enum_leaves += 1;
        absorb(agg, &t, &out, false);
    }
}

fn cmd_enum(kv: &BTreeMap<String, String>) -> i32 {
    let tier = kv.get("tier").cloned().unwrap_or_else(|| "quick".into());
    let threads: usize = kv.get("threads").map(|s| s.parse().unwrap()).unwrap_or(1).max(1);
    let out_dir = kv.get("out").cloned().unwrap_or_else(|| "-".into());
    if let Err(e) = exec::layout_selftest() {
        eprintln!("HARNESS-ERROR layout selftest: {}", e);
        return 2;
    }
    let cfg = if tier == "thorough" {
        EnumCfg {
            lens: vec![0, 1, 2, 3, 5],
            max_len: 6,
            caps: (1..=8).collect(),
            fixed_ns: (1..=12).collect(),
            opts: vec![Grow::Fail, Grow::Ok { slack: 0, relocate: true }, Grow::Ok { slack: 0, relocate: false }, Grow::Ok { slack: 1, relocate: true }, Grow::Ok { slack: 4, relocate: false }],
            room: 6,
        }
    } else if tier == "tiny" {
        EnumCfg { lens: vec![0, 1, 3], max_len: 3, caps: vec![1, 2, 4], fixed_ns: vec![1, 2, 4], opts: vec![Grow::Fail, Grow::Ok { slack: 0, relocate: true }, Grow::Ok { slack: 2, relocate: false }], room: 3 }
    } else {
        EnumCfg {
            lens: vec![0, 1, 2, 3, 5],
            max_len: 5,
            caps: (1..=8).collect(),
            fixed_ns: (1..=12).collect(),
            opts: vec![Grow::Fail, Grow::Ok { slack: 0, relocate: true }, Grow::Ok { slack: 0, relocate: false }, Grow::Ok { slack: 1, relocate: true }, Grow::Ok { slack: 4, relocate: false }],
            room: 6,
        }
    };
    // work items: (family, cap, prefill, sequence)
    #[derive(Clone)]
    struct Item {
        base: Trace,
        faults: bool,
    }
    let mut items: Vec<Item> = vec![];
    // alphabet for fixed / owned writers additionally contains Flush (index = lens.len())
    let seqs_f = sequences(cfg.lens.len() + 1, cfg.max_len);
    for cap in &cfg.caps {
        for pre in [0usize, 1] {
            if pre > *cap {
                continue;
            }
            // alphabet of caller-supplied writers: the chunk lengths plus one single-character write (write_char)
            for s in &seqs_f {
                let mut ops: Vec<Op> = s.iter().enumerate().map(|(i, a)| if *a == cfg.lens.len() { Op::Char((b'A' + (i % 26) as u8) as char) } else { Op::Write(chunk_for(cfg.lens[*a], i)) }).collect();
                ops.push(Op::Flush);
                ops.push(Op::Access);
                items.push(Item {
                    base: Trace { seed: 0, run: 0, kind: Kind::Caller, cap: *cap, room: cfg.room, prefill: vec![b'P'; pre], grows: vec![], ops, alloc_fail_at: None },
                    faults: true,
                });
            }
        }
    }
    for n in &cfg.fixed_ns {
        for s in &seqs_f {
            let mut ops: Vec<Op> = s.iter().enumerate().map(|(i, a)| if *a == cfg.lens.len() { Op::Flush } else { Op::Write(chunk_for(cfg.lens[*a], i)) }).collect();
            ops.push(Op::Flush);
            items.push(Item { base: Trace { seed: 0, run: 0, kind: Kind::Fixed, cap: *n, room: 0, prefill: vec![], grows: vec![], ops, alloc_fail_at: None }, faults: false });
        }
    }
    for cap in std::iter::once(&0usize).chain(cfg.caps.iter()) {
        for s in &seqs_f {
            let mut ops: Vec<Op> = s.iter().enumerate().map(|(i, a)| if *a == cfg.lens.len() { Op::Flush } else { Op::Write(chunk_for(cfg.lens[*a] * 3, i)) }).collect();
            ops.push(Op::Access);
            items.push(Item { base: Trace { seed: 0, run: 0, kind: Kind::Owned, cap: *cap, room: 0, prefill: vec![], grows: vec![], ops, alloc_fail_at: None }, faults: false });
        }
    }
    let items = &items;
    let opts = &cfg.opts;
    println!("SEED 0");
    let parts: Vec<Agg> = std::thread::scope(|s| {
        let hs: Vec<_> = (0..threads)
            .map(|ti| {
                s.spawn(move || {
                    let mut a = Agg::default();
                    let mut i = ti;
                    while i < items.len() {
                        let it = &items[i];
                        // run ids: item index in the high part, leaf index in the low part
                        let mut counter = (i as u64) << 20;
                        if it.faults {
                            let mut prefix = vec![];
                            explore_faults(&mut a, &it.base, &mut prefix, opts, &mut counter);
                        } else {
                            let mut t = it.base.clone();
                            t.run = counter;
                            let out = execute(&t);
                            a.enum_leaves += 1;
                            absorb(&mut a, &t, &out, false);
                        }
                        i += threads;
                    }
                    a
                })
            })
            .collect();
        hs.into_iter().map(|h| h.join().expect("worker panicked")).collect()
    });
    let mut agg = Agg::default();
    for p in parts {
        merge(&mut agg, p);
    }
    agg.counters.add("enum_work_items", items.len() as u64);
    finish(agg, 0, &out_dir, None, "enumerated")
}

/// One Rust-owned-writer trace with an injected allocation failure, in its own process (on the
/// unchanged tree the failing `Vec::reserve` ends in Rust's out-of-memory abort, which the
/// orchestrator recognises and counts as "aborted cleanly").
fn cmd_allocfault(kv: &BTreeMap<String, String>) -> i32 {
    let seed: u64 = kv.get("seed").map(|s| s.parse().unwrap()).unwrap_or(simcore::DEFAULT_SEED);
    let run: u64 = kv.get("run").map(|s| s.parse().unwrap()).unwrap_or(0);
    let prop = kv.get("prop").cloned().unwrap_or_else(|| "C12".into());
    let t = match kv.get("replay") {
        Some(p) => match std::fs::read_to_string(p).map_err(|e| e.to_string()).and_then(|s| Trace::from_text(&s)) {
            Ok(t) => t,
            Err(e) => {
                eprintln!("HARNESS-ERROR {}", e);
                return 2;
            }
        },
        None => trace::gen_allocfault_trace(seed, run),
    };
    let out = execute(&t);
    print!("{}", out.log);
    println!("ALLOCFAULT fired={} recovered={} double_frees={}", out.stats.alloc_fault_fired, out.stats.alloc_fault_recovered, out.stats.double_frees);
    if let Some(v) = out.violation {
        // C03's share of this engine: memory errors (double free, a byte written at or beyond cap, the runtime's own
        // `needed_len <= cap` debug assertion firing, which is an out-of-bounds write in a release build)
        let memory = v.oracle.starts_with("O4") || v.oracle.starts_with("I4") || (v.oracle == "PANIC" && v.detail.contains("cap"));
        if (prop == "C03") == memory {
            println!("-----BEGIN REPLAY-----\n{}# property {}\n# oracle {}\n-----END REPLAY-----", t.to_text(), prop, v.oracle);
            println!("VIOLATION property={} replay=- oracle={} engine=write-sim-allocfault seed={} run={} step={} detail={}", prop, v.oracle, seed, run, v.step, json_str(&v.detail));
            return 1;
        }
    }
    0
}

fn cmd_replay(path: &str) -> i32 {
    let text = match std::fs::read_to_string(path) {
        Ok(t) => t,
        Err(e) => {
            eprintln!("HARNESS-ERROR cannot read {}: {}", path, e);
            return 2;
        }
    };
    let t = match Trace::from_text(&text) {
        Ok(t) => t,
        Err(e) => {
            eprintln!("HARNESS-ERROR cannot parse {}: {}", path, e);
            return 2;
        }
    };
    if let Err(e) = exec::layout_selftest() {
        eprintln!("HARNESS-ERROR layout selftest: {}", e);
        return 2;
    }
    let out = execute(&t);
    print!("{}", out.log);
    match out.violation {
        Some(v) => {
            println!("VIOLATION property={} replay={} oracle={} step={} detail={}", PROP, path, v.oracle, v.step, json_str(&v.detail));
            1
        }
        None => {
            println!("REPLAY-OK no violation");
            0
        }
    }
}

fn main() {
    let args: Vec<String> = std::env::args().skip(1).collect();
    let (pos, kv) = parse_args(&args);
    // keep the default panic message quiet for panics we catch and classify
    std::panic::set_hook(Box::new(|_| {}));
    let code = match pos.first().map(|s| s.as_str()) {
        Some("run") => cmd_run(&kv),
        Some("enum") => cmd_enum(&kv),
        Some("replay") => match pos.get(1) {
            Some(p) => cmd_replay(p),
            None => 2,
        },
        Some("allocfault") => cmd_allocfault(&kv),
        Some("allocfault-gen") => {
            let seed: u64 = kv.get("seed").map(|s| s.parse().unwrap()).unwrap_or(simcore::DEFAULT_SEED);
            let run: u64 = kv.get("run").map(|s| s.parse().unwrap()).unwrap_or(0);
            print!("{}", trace::gen_allocfault_trace(seed, run).to_text());
            0
        }
        Some("gen") => {
            let seed: u64 = kv.get("seed").map(|s| s.parse().unwrap()).unwrap_or(simcore::DEFAULT_SEED);
            let run: u64 = kv.get("run").map(|s| s.parse().unwrap()).unwrap_or(0);
            print!("{}", gen_trace(seed, run, kv.contains_key("miri-shapes")).to_text());
            0
        }
        Some("selftest") => match exec::layout_selftest() {
            Ok(()) => 0,
            Err(e) => {
                eprintln!("HARNESS-ERROR {}", e);
                2
            }
        },
        _ => {
            eprintln!("usage: write-sim run|enum|replay|gen|selftest ...");
            2
        }
    };
    std::process::exit(code);
}
