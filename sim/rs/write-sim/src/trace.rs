//! Trace format of `write-sim` (DESIGN.md §5): the buffer owner's decisions (grow outcomes) and the
//! Rust side's operations are both explicit, so the executor never draws a random number.

use simcore::{hex, unhex, Rng};

#[derive(Clone, Copy, Debug, PartialEq, Eq, PartialOrd, Ord)]
pub enum Kind {
    /// caller-supplied writer (struct built through the `#[repr(C)]` mirror of capi.h)
    Caller,
    /// `diplomat_simple_write(buf, n)`
    Fixed,
    /// `diplomat_buffer_write_create(cap)`
    Owned,
}

#[derive(Clone, Copy, Debug, PartialEq, Eq)]
pub enum Grow {
    Fail,
    /// succeed with capacity = requested + slack; `relocate` = new allocation, old one released
    Ok { slack: usize, relocate: bool },
}

#[derive(Clone, Debug, PartialEq, Eq)]
pub enum Op {
    Write(String),
    Char(char),
    Flush,
    Access,
}

#[derive(Clone, Debug, PartialEq, Eq)]
pub struct Trace {
    pub seed: u64,
    pub run: u64,
    pub kind: Kind,
    /// Caller/Owned: initial capacity. Fixed: the `buf_size` argument (>= 1).
    pub cap: usize,
    /// Caller: extra bytes behind the buffer that in-place growth may use (0 under Miri).
    pub room: usize,
    /// Caller: bytes already in the buffer (len = prefill.len() <= cap)
    pub prefill: Vec<u8>,
    pub grows: Vec<Grow>,
    pub ops: Vec<Op>,
    /// Owned writers only: the k-th allocation request made *inside write operations* fails (once)
    pub alloc_fail_at: Option<u32>,
}

impl Trace {
    pub fn to_text(&self) -> String {
        let mut s = String::new();
        s.push_str("# write-sim trace v1\n");
        s.push_str(&format!("seed {} run {}\n", self.seed, self.run));
        s.push_str(&format!(
            "kind {}\n",
            match self.kind {
                Kind::Caller => "caller",
                Kind::Fixed => "fixed",
                Kind::Owned => "owned",
            }
        ));
        s.push_str(&format!("cap {}\nroom {}\nprefill {}\n", self.cap, self.room, hex(&self.prefill)));
        if let Some(k) = self.alloc_fail_at {
            s.push_str(&format!("allocfail {}\n", k));
        }
        s.push_str("grows");
        for g in &self.grows {
            match g {
                Grow::Fail => s.push_str(" F"),
                Grow::Ok { slack, relocate } => {
                    s.push_str(&format!(" K{}{}", slack, if *relocate { "r" } else { "i" }))
                }
            }
        }
        s.push('\n');
        for op in &self.ops {
            match op {
                Op::Write(c) => s.push_str(&format!("op W {}\n", hex(c.as_bytes()))),
                Op::Char(c) => s.push_str(&format!("op C {:x}\n", *c as u32)),
                Op::Flush => s.push_str("op F\n"),
                Op::Access => s.push_str("op A\n"),
            }
        }
        s
    }

    pub fn from_text(text: &str) -> Result<Trace, String> {
        let mut t = Trace {
            seed: 0,
            run: 0,
            kind: Kind::Caller,
            cap: 1,
            room: 0,
            prefill: vec![],
            grows: vec![],
            ops: vec![],
            alloc_fail_at: None,
        };
        for line in text.lines() {
            let line = line.trim();
            if line.is_empty() || line.starts_with('#') {
                continue;
            }
            let toks: Vec<&str> = line.split_whitespace().collect();
            match toks[0] {
                "seed" => {
                    t.seed = toks.get(1).and_then(|x| x.parse().ok()).ok_or("bad seed")?;
                    if toks.get(2) == Some(&"run") {
                        t.run = toks.get(3).and_then(|x| x.parse().ok()).ok_or("bad run")?;
                    }
                }
                "kind" => {
                    t.kind = match toks.get(1).copied() {
                        Some("caller") => Kind::Caller,
                        Some("fixed") => Kind::Fixed,
                        Some("owned") => Kind::Owned,
                        _ => return Err("bad kind".into()),
                    }
                }
                "allocfail" => t.alloc_fail_at = Some(toks.get(1).and_then(|x| x.parse().ok()).ok_or("bad allocfail")?),
                "cap" => t.cap = toks.get(1).and_then(|x| x.parse().ok()).ok_or("bad cap")?,
                "room" => t.room = toks.get(1).and_then(|x| x.parse().ok()).ok_or("bad room")?,
                "prefill" => t.prefill = unhex(toks.get(1).copied().unwrap_or("")).ok_or("bad prefill")?,
                "grows" => {
                    for g in &toks[1..] {
                        if *g == "F" {
                            t.grows.push(Grow::Fail);
                        } else if let Some(rest) = g.strip_prefix('K') {
                            let (num, flag) = rest.split_at(rest.len() - 1);
                            t.grows.push(Grow::Ok {
                                slack: num.parse().map_err(|_| "bad slack")?,
                                relocate: flag == "r",
                            });
                        } else {
                            return Err(format!("bad grow outcome {}", g));
                        }
                    }
                }
                "op" => match toks.get(1).copied() {
                    Some("W") => {
                        let b = unhex(toks.get(2).copied().unwrap_or("")).ok_or("bad chunk")?;
                        t.ops.push(Op::Write(String::from_utf8(b).map_err(|_| "chunk not utf8")?));
                    }
                    Some("C") => {
                        let v = u32::from_str_radix(toks.get(2).copied().unwrap_or(""), 16).map_err(|_| "bad char")?;
                        t.ops.push(Op::Char(char::from_u32(v).ok_or("bad char")?));
                    }
                    Some("F") => t.ops.push(Op::Flush),
                    Some("A") => t.ops.push(Op::Access),
                    _ => return Err("bad op".into()),
                },
                other => return Err(format!("unknown line {}", other)),
            }
        }
        if t.kind == Kind::Fixed && t.cap == 0 {
            return Err("fixed writer needs buf_size >= 1".into());
        }
        if t.prefill.len() > t.cap {
            return Err("prefill longer than cap".into());
        }
        Ok(t)
    }

    /// Shape = everything but concrete byte values (used to pick structurally different traces).
    pub fn shape(&self) -> String {
        let mut s = format!("{:?}/c{}/p{}/", self.kind, self.cap.min(9), self.prefill.len().min(3));
        for g in &self.grows {
            match g {
                Grow::Fail => s.push('F'),
                Grow::Ok { slack, relocate } => {
                    s.push(if *slack == 0 { 'e' } else { 'm' });
                    s.push(if *relocate { 'r' } else { 'i' });
                }
            }
        }
        s.push('/');
        for op in &self.ops {
            match op {
                Op::Write(c) => s.push_str(&format!("W{}", c.len().min(12))),
                Op::Char(c) => s.push_str(&format!("C{}", c.len_utf8())),
                Op::Flush => s.push('F'),
                Op::Access => s.push('A'),
            }
        }
        s
    }
}

// ---------------------------------------------------------------------------------------------
// generator (swarm style)

const POOL: &[&str] = &["a", "é", "€", "𝄞", "z", "0", " ", "ß", "日", "😀", "\u{0}", "~"];

fn gen_chunk(rng: &mut Rng, nbytes_target: usize, multibyte: bool) -> String {
    let mut s = String::new();
    while s.len() < nbytes_target {
        let piece: &str = if multibyte { POOL[rng.below(POOL.len() as u32) as usize] } else { "abcdefghij"[..1 + rng.below(3) as usize].as_ref() };
        if s.len() + piece.len() > nbytes_target {
            // fill the remainder with ASCII so the byte length is exact
            while s.len() < nbytes_target {
                s.push((b'a' + (rng.below(26) as u8)) as char);
            }
            break;
        }
        s.push_str(piece);
    }
    s
}

pub struct Swarm {
    pub kind: Kind,
    pub max_ops: u32,
    pub fail_num: u32, // failure probability per grow = fail_num / 16
    pub slack_num: u32,
    pub reloc_num: u32,
    pub multibyte: bool,
    pub flush_num: u32,
    pub access_num: u32,
    pub boundary_bias: u32, // probability /16 that a chunk is sized relative to the remaining capacity
    pub big_chunks: bool,
}

pub fn gen_trace(seed: u64, run: u64, miri: bool) -> Trace {
    let mut rng = Rng::derive(seed, "write-sim", run);
    let kind = match rng.below(8) {
        0..=3 => Kind::Caller,
        4..=5 => Kind::Fixed,
        _ => Kind::Owned,
    };
    let sw = Swarm {
        kind,
        max_ops: *rng.pick(&[1, 2, 3, 3, 4, 6, 8, 12, 20]),
        fail_num: *rng.pick(&[0, 0, 1, 2, 4, 8, 16]),
        slack_num: *rng.pick(&[0, 4, 8, 16]),
        reloc_num: *rng.pick(&[0, 8, 16]),
        multibyte: rng.chance(1, 2),
        flush_num: *rng.pick(&[0, 1, 4]),
        access_num: *rng.pick(&[0, 2, 4]),
        boundary_bias: *rng.pick(&[0, 4, 8, 14]),
        big_chunks: rng.chance(1, 6),
    };
    let cap = match kind {
        Kind::Fixed => 1 + rng.below(if sw.big_chunks { 64 } else { 12 }) as usize,
        Kind::Caller => 1 + rng.below(if sw.big_chunks { 40 } else { 10 }) as usize,
        Kind::Owned => rng.below(if sw.big_chunks { 40 } else { 10 }) as usize,
    };
    let room = if kind == Kind::Caller && !miri { *rng.pick(&[0usize, 0, 4, 16, 64]) } else { 0 };
    let prefill = if kind == Kind::Caller && rng.chance(1, 3) {
        let n = rng.below(cap as u32 + 1) as usize;
        gen_chunk(&mut rng, n, false).into_bytes()
    } else {
        vec![]
    };
    let nops = 1 + rng.below(sw.max_ops);
    let mut ops = vec![];
    // the generator tracks an *estimate* of len/cap only to aim chunks at the boundary; the
    // oracle never uses this estimate.
    let mut est_len = prefill.len();
    let est_cap = if kind == Kind::Fixed { cap - 1 } else { cap };
    let mut est_cap = est_cap;
    for _ in 0..nops {
        let r = rng.below(16);
        if r < sw.flush_num {
            ops.push(Op::Flush);
            continue;
        }
        if r < sw.flush_num + sw.access_num && kind != Kind::Fixed {
            ops.push(Op::Access);
            continue;
        }
        if rng.chance(1, 8) {
            let c = *rng.pick(&['a', 'é', '€', '😀', '\u{0}', '\u{7f}', '\u{80}', '\u{7ff}', '\u{800}', '\u{ffff}', '\u{10000}', '\u{10ffff}']);
            est_len += c.len_utf8();
            ops.push(Op::Char(c));
            continue;
        }
        let remaining = est_cap.saturating_sub(est_len);
        let n = if rng.below(16) < sw.boundary_bias {
            match rng.below(5) {
                0 => remaining,
                1 => remaining + 1,
                2 => remaining.saturating_sub(1),
                3 => 0,
                _ => remaining + 1 + rng.below(8) as usize,
            }
        } else if sw.big_chunks {
            rng.below(80) as usize
        } else {
            *rng.pick(&[0usize, 1, 1, 2, 3, 4, 5, 7, 9, 13])
        };
        let c = gen_chunk(&mut rng, n, sw.multibyte);
        est_len += c.len();
        if est_len > est_cap {
            est_cap = est_len; // optimistic estimate: growth succeeded exactly
        }
        ops.push(Op::Write(c));
    }
    if rng.chance(3, 4) {
        ops.push(Op::Flush);
    }
    if kind != Kind::Fixed && rng.chance(1, 2) {
        ops.push(Op::Access);
    }
    let mut grows = vec![];
    if kind == Kind::Caller {
        let ngrow = ops.len();
        for _ in 0..ngrow {
            if rng.below(16) < sw.fail_num {
                grows.push(Grow::Fail);
            } else {
                let slack = if rng.below(16) < sw.slack_num { 1 + rng.below(24) as usize } else { 0 };
                let relocate = rng.below(16) < sw.reloc_num;
                grows.push(Grow::Ok { slack, relocate });
            }
        }
    }
    Trace { seed, run, kind, cap, room, prefill, grows, ops, alloc_fail_at: None }
}

/// Rust-owned writer, a few growing writes, an allocation failure at the k-th request, more writes
pub fn gen_allocfault_trace(seed: u64, run: u64) -> Trace {
    let mut rng = Rng::derive(seed, "write-sim-allocfault", run);
    let cap = *rng.pick(&[0usize, 1, 2, 4, 8, 16]);
    let n = 1 + rng.below(6);
    let mut ops = vec![];
    for _ in 0..n {
        let len = *rng.pick(&[0usize, 1, 3, 5, 9, 17, 40]);
        let mb = rng.chance(1, 2);
        ops.push(Op::Write(gen_chunk(&mut rng, len, mb)));
        if rng.chance(1, 4) {
            ops.push(Op::Flush);
        }
        if rng.chance(1, 3) {
            ops.push(Op::Access);
        }
    }
    ops.push(Op::Access);
    // a third of the processes run fault-free to the end (index never reached): capacity hints with slack, then growth
    let k = if rng.chance(1, 3) { 1_000_000 } else { rng.below(3) };
    Trace { seed, run, kind: Kind::Owned, cap, room: 0, prefill: vec![], grows: vec![], ops, alloc_fail_at: Some(k) }
}
