// splitmix32-seeded xoshiro128** — bit-identical to simcore::Rng (Rust), lib/prng.py, own_driver.cpp, shim.c
function splitmix32(st) {
  st = (st + 0x9e3779b9) >>> 0;
  let z = st;
  z ^= z >>> 16; z = Math.imul(z, 0x21f0aaad) >>> 0;
  z ^= z >>> 15; z = Math.imul(z, 0x735a2d97) >>> 0;
  z ^= z >>> 15;
  return [st, z >>> 0];
}
const rotl = (x, k) => ((x << k) | (x >>> (32 - k))) >>> 0;
export function fnv1a32(str) {
  let h = 0x811c9dc5;
  for (const c of Buffer.from(str, "utf8")) { h ^= c; h = Math.imul(h, 0x01000193) >>> 0; }
  return h >>> 0;
}
export class Rng {
  constructor(seed) {
    let st = seed >>> 0; this.s = [0, 0, 0, 0];
    for (let i = 0; i < 4; i++) { let z; [st, z] = splitmix32(st); this.s[i] = z; }
    if (!this.s.some((x) => x)) this.s[0] = 1;
  }
  static derive(seed, engine, run) {
    const S = BigInt(seed), R = BigInt(run);
    const lo = Number(S & 0xffffffffn), hi = Number((S >> 32n) & 0xffffffffn), rlo = Number(R & 0xffffffffn), rhi = Number((R >> 32n) & 0xffffffffn);
    const a = splitmix32((lo ^ fnv1a32(engine)) >>> 0)[1];
    const b = splitmix32((a ^ rotl(hi, 13) ^ rlo) >>> 0)[1];
    const c = splitmix32((b ^ rotl(rhi, 7)) >>> 0)[1];
    return new Rng(c);
  }
  next() {
    const s = this.s;
    const result = Math.imul(rotl(Math.imul(s[1], 5) >>> 0, 7), 9) >>> 0;
    const t = (s[1] << 9) >>> 0;
    s[2] = (s[2] ^ s[0]) >>> 0; s[3] = (s[3] ^ s[1]) >>> 0; s[1] = (s[1] ^ s[2]) >>> 0; s[0] = (s[0] ^ s[3]) >>> 0;
    s[2] = (s[2] ^ t) >>> 0; s[3] = rotl(s[3], 11);
    return result;
  }
  below(n) { return this.next() % n; }
  chance(num, den) { return this.below(den) < num; }
  pick(xs) { return xs[this.below(xs.length)]; }
}
export function fnv1a64hex(str) {
  let h = 0xcbf29ce484222325n;
  for (const c of Buffer.from(str, "utf8")) { h ^= BigInt(c); h = (h * 0x100000001b3n) & 0xffffffffffffffffn; }
  return h.toString(16).padStart(16, "0");
}
