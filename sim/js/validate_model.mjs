// Validates the independent outlives model (gen.mjs::computeLenders) against the hand-annotated ground truth in
// feature_tests/src/lifetimes.rs (`// Holds: [a, b]` comments on `One::*`). A disagreement means the *model* is
// wrong (harness error), never a property violation.
//   node validate_model.mjs <path to lifetimes.rs>
import fs from "node:fs";
import { computeLenders } from "./gen.mjs";

const src = fs.readFileSync(process.argv[2], "utf8");
const spec = { opaques: [{ name: "One", lts: ["a"], bounds: [] }, { name: "Two", lts: ["a", "b"], bounds: [] }], structs: [] };
const re = /\/\/ Holds: \[([^\]]*)\][\s\S]*?pub fn (\w+)<([^>]*)>\(([\s\S]*?)\)\s*->\s*Box<One<'(\w+)>>/g;
let m, n = 0, bad = 0;
while ((m = re.exec(src))) {
  const holds = m[1].split(",").map((s) => s.trim()).filter(Boolean).sort();
  const name = m[2];
  const lts = [], bounds = [];
  for (const g of m[3].split(",")) {
    const [l, bs] = g.split(":").map((s) => s.trim());
    if (!l) continue;
    lts.push(l.replace("'", ""));
    if (bs) for (const b of bs.split("+")) bounds.push([l.replace("'", ""), b.trim().replace("'", "")]);
  }
  const params = [];
  for (const p of m[4].replace(/\/\/[^\n]*/g, "").split(",").reduce((acc, piece) => { if (acc.length && (acc[acc.length - 1].split("<").length > acc[acc.length - 1].split(">").length)) acc[acc.length - 1] += "," + piece; else acc.push(piece); return acc; }, [])) {
    const pm = /(\w+):\s*&(?:'(\w+)\s+)?(One|Two)<([^>]*)>/.exec(p);
    if (!pm) continue;
    params.push({ name: pm[1], kind: "opaque", ty: pm[3], lt: pm[2] || null, args: pm[4].split(",").map((s) => s.trim().replace("'", "")) });
  }
  const method = { owner: "One", name, static: true, lts, implLts: ["o"], implBounds: [], self: null, params, ret: { kind: "box", ty: "One", lt: null, args: [m[5]] }, bounds };
  let got = computeLenders(spec, method).sort();
  // one annotation names the parameters by their reference lifetimes instead of their names
  if (holds.every((h) => !params.some((p) => p.name === h))) got = got.map((g) => params.find((p) => p.name === g).lt).sort();
  n++;
  if (JSON.stringify(got) !== JSON.stringify(holds)) { bad++; console.log(`MODEL-MISMATCH ${name}: model=${JSON.stringify(got)} annotated=${JSON.stringify(holds)}`); }
}
console.log(`MODEL-VALIDATION methods=${n} mismatches=${bad}`);
process.exit(bad || n < 8 ? 1 : 0);
