// gc-sim bridge generator and the independent outlives model (DESIGN.md §4.3 / §4.4).
//
//   node gen.mjs --seed S --bridge I --out DIR      writes DIR/src/lib.rs and DIR/desc.json
//
// The generator stays inside the grammar C04 quantifies over: opaque types with 0..2 lifetime
// parameters (optionally with a definition-site bound), structs with lifetime slots holding
// `&'x Opaque` / string slices, methods over <= 4 named lifetimes with random declared bounds,
// anonymous input lifetimes, optional opaque parameters, and Box / & / Option / Result returns.
// `computeLenders` is computed here from the signature alone, with no knowledge of Diplomat.

import fs from "node:fs";
import path from "node:path";
import { Rng } from "./prng.mjs";

const LTS = ["a", "b", "c", "d"];

function genSpec(seed, idx) {
  const rng = Rng.derive(seed, "gc-sim-bridge", idx);
  const nOpaque = 1 + rng.below(4);
  const opaques = [];
  for (let i = 0; i < nOpaque; i++) {
    const nl = i === 0 ? rng.below(2) : rng.below(3);
    const lts = LTS.slice(0, nl);
    const bounds = nl === 2 && rng.chance(1, 2) ? [["b", "a"]] : []; // 'b: 'a on the definition
    opaques.push({ name: "O" + i, lts, bounds });
  }
  const structs = [];
  const nStruct = rng.pick([0, 1, 1, 2]);
  const defBoundsOf = (tyName, args) => {
    const def = opaques.find((o) => o.name === tyName) || structs.find((x) => x.name === tyName) || outs.find((x) => x.name === tyName);
    return def.bounds.map(([l, sh]) => [args[def.lts.indexOf(l)], args[def.lts.indexOf(sh)]]).filter(([l, sh]) => l !== sh);
  };
  const outs = [];
  const finishBounds = (st) => {
    // bounds a definition implies: `&'l O<'y>` implies 'y: 'l; used types contribute their own definition bounds
    st.bounds = [];
    const add = (l, sh) => { if (l !== sh && !st.bounds.some((b) => b[0] === l && b[1] === sh)) st.bounds.push([l, sh]); };
    for (const f of st.fields) {
      if (f.kind === "opaque") { for (const y of f.args) add(y, f.lt); for (const [l, sh] of defBoundsOf(f.ty, f.args)) add(l, sh); }
      if (f.kind === "struct") for (const [l, sh] of defBoundsOf(f.ty, f.args)) add(l, sh);
    }
  };
  for (let i = 0; i < nStruct; i++) {
    const nl = 1 + rng.below(2);
    const lts = LTS.slice(0, nl);
    const fields = [];
    const nf = 1 + rng.below(3);
    for (let f = 0; f < nf; f++) {
      const l = rng.pick(lts);
      const r = rng.below(6);
      if (r < 3) {
        const o = rng.pick(opaques);
        // mostly the field's own reference lifetime, sometimes another slot (which implies a definition bound)
        fields.push({ name: "f" + f, kind: "opaque", ty: o.name, lt: l, args: o.lts.map(() => (rng.chance(1, 4) ? rng.pick(lts) : l)) });
      } else if (r < 5 || !structs.length) {
        // (optional slices are spelled DiplomatOption<..> inside structs)
        fields.push({ name: "f" + f, kind: "slice", enc: rng.pick(["DiplomatStr", "str", "DiplomatStr16", "u8s"]), lt: l, opt: rng.chance(1, 3) });
      } else {
        const inner = rng.pick(structs); // only earlier structs: no cycles
        fields.push({ name: "f" + f, kind: "struct", ty: inner.name, args: inner.lts.map(() => rng.pick(lts)) });
      }
    }
    const used = (l) => fields.some((f) => f.lt === l || (f.args || []).includes(l));
    for (const l of lts) if (!used(l)) fields.push({ name: "f" + fields.length, kind: "slice", enc: "DiplomatStr", lt: l });
    const st = { name: "S" + i, lts, fields };
    finishBounds(st);
    structs.push(st);
  }
  // out-structs: by-value returns whose fields are borrowed opaque references
  const nOut = rng.pick([0, 1, 1, 1]);
  for (let i = 0; i < nOut; i++) {
    const nl = 1 + rng.below(2);
    const lts = LTS.slice(0, nl);
    const fields = [];
    const nf = 1 + rng.below(3);
    for (let f = 0; f < nf; f++) {
      const l = rng.pick(lts);
      const o = rng.pick(opaques);
      fields.push({ name: "f" + f, kind: "opaque", ty: o.name, lt: l, args: o.lts.map(() => (rng.chance(1, 3) ? rng.pick(lts) : l)), opt: rng.chance(1, 3) });
    }
    for (const l of lts) if (!fields.some((f) => f.lt === l || f.args.includes(l))) { const o = rng.pick(opaques); fields.push({ name: "f" + fields.length, kind: "opaque", ty: o.name, lt: l, args: o.lts.map(() => l), opt: false }); }
    const st = { name: "R" + i, lts, fields, out: true };
    finishBounds(st);
    outs.push(st);
  }
  const methods = [];
  const nMethods = 1 + rng.below(6);
  for (let m = 0; m < nMethods; m++) {
    const owner = rng.pick(opaques);
    // (0 = the method has no generics of its own and can only use the impl block's lifetimes)
    const nl = owner.lts.length >= 2 ? (rng.chance(1, 4) ? 0 : rng.pick([1, 2, 3, 4, 4])) : owner.lts.length && rng.chance(1, 10) ? 0 : rng.pick([1, 2, 3, 4, 4]);
    const lts = LTS.slice(0, nl);
    // the Self type of the impl block: usually fully generic, sometimes with a 'static slot (`impl<'s1> O<'static, 's1>`)
    let implLts = owner.lts.map((_, i) => (nl > 0 && rng.chance(1, 6) ? "static" : "s" + i));
    // a Self type that mixes 'static and named slots, used together with parameters on the impl's lifetimes
    const mixedSelf = nl > 0 && owner.lts.length >= 2 && rng.chance(1, 3);
    if (mixedSelf) { const st = rng.below(owner.lts.length); implLts = owner.lts.map((_, i) => (i === st ? "static" : "s" + i)); }
    // lifetimes used in parameter and return types: the method's own, sometimes the impl block's
    const namedImpl = implLts.filter((l) => l !== "static");
    const anyLt = () => (namedImpl.length && (!lts.length || rng.chance(1, 5)) ? rng.pick(namedImpl) : rng.pick(lts));
    const outerLt = () => (rng.chance(1, 4) ? null : anyLt()); // null = anonymous `&T`
    const isStatic = mixedSelf ? false : rng.chance(1, 3);
    const self = isStatic ? null : { lt: mixedSelf ? rng.pick(lts) : outerLt(), mut: rng.chance(1, 4) };
    const params = [];
    const np = rng.below(4);
    for (let p = 0; p < np; p++) {
      const r = rng.below(10);
      if (r < 5 || (r >= 8 && !structs.length)) {
        const o = rng.pick(opaques);
        params.push({ name: "p" + p, kind: "opaque", ty: o.name, lt: outerLt(), args: o.lts.map(() => (rng.chance(1, 10) ? "static" : anyLt())), mut: rng.chance(1, 5) });
      } else if (r < 6) {
        const o = rng.pick(opaques);
        params.push({ name: "p" + p, kind: "optopaque", ty: o.name, lt: outerLt(), args: o.lts.map(() => (rng.chance(1, 10) ? "static" : anyLt())) });
      } else if (r < 8) {
        params.push({ name: "p" + p, kind: "slice", enc: rng.pick(["DiplomatStr", "str", "DiplomatStr16", "u8s", "u8smut"]), lt: outerLt() });
      } else {
        const s = rng.pick(structs);
        // lifetime slots of a struct are often instantiated with one and the same lifetime
        const same = rng.chance(1, 2) ? anyLt() : null;
        // a slot of a struct parameter may also be instantiated with 'static (it then lends nothing)
        const args = s.lts.map(() => same ?? anyLt());
        if (args.length >= 2 && rng.chance(1, 4)) args[rng.below(args.length)] = "static";
        params.push({ name: "p" + p, kind: "struct", ty: s.name, args });
      }
    }
    if (nl === 0 && namedImpl.length >= 2 && self && self.lt) {
      // a method on the impl's lifetimes only: self borrowed for one of them, another parameter on a different one
      const other = namedImpl.filter((l) => l !== self.lt);
      const o = rng.pick(opaques);
      params.push({ name: "p" + params.length, kind: "opaque", ty: o.name, lt: rng.pick(other), args: o.lts.map(() => rng.pick(other)) });
    }
    if (mixedSelf && !params.some((p) => namedImpl.includes(p.lt))) {
      const o = rng.pick(opaques);
      params.push({ name: "p" + params.length, kind: "opaque", ty: o.name, lt: rng.pick(namedImpl), args: o.lts.map(() => anyLt()) });
    }
    let rkind = rng.pick(["box", "box", "ref", "optbox", "optref", "resbox", "struct", "struct", "resstruct", "reserr"]);
    if ((rkind === "struct" || rkind === "resstruct") && !outs.length) rkind = "box";
    const ro = rkind === "struct" || rkind === "resstruct" ? rng.pick(outs) : rng.pick(opaques);
    const ret = { kind: rkind, ty: ro.name, lt: rkind === "ref" || rkind === "optref" ? anyLt() : null, args: ro.lts.map(() => anyLt()) }; // ('static is not generated: the JS backend panics on it, which is C15's subject)
    // Result<Box<T>, Box<E>>: the error arm is an opaque that may borrow from the inputs as well
    if (rkind === "reserr") { const eo = rng.pick(opaques); ret.err = { ty: eo.name, args: eo.lts.map(() => anyLt()) }; }
    // bounds: the ones definitions force (they must be spelled out), plus random extra ones
    const bounds = [];
    const addBoundLate = [];
    const addBound = (longer, shorter) => {
      if (longer === shorter || longer === "static" || shorter === "static") return;
      if (!bounds.some((b) => b[0] === longer && b[1] === shorter)) bounds.push([longer, shorter]);
    };
    const useDefBounds = (tyName, args) => { for (const [l, sh] of defBoundsOf(tyName, args)) addBound(l, sh); };
    for (const p of params) if (p.kind !== "slice") useDefBounds(p.ty, p.args);
    useDefBounds(ret.ty, ret.args);
    if (ret.err) useDefBounds(ret.err.ty, ret.err.args);
    const forced = bounds.map((b) => b.slice()); // bounds the used types' definitions force the method to restate
    // swarm: sparse or dense bound graphs (dense ones produce diamonds, cycles and re-converging paths)
    const mode = rng.below(6);
    const nExtra = mode < 2 ? 3 + rng.below(5) : rng.below(4);
    for (let e = 0; e < nExtra; e++) addBound(anyLt(), anyLt());
    if (mode === 5) {
        // fan-in: (almost) every other lifetime directly outlives one lifetime of the return type, with
        // a few bounds among them — re-converging paths in the transitive closure
        const rl = [...ret.args, ...(ret.lt ? [ret.lt] : [])];
        if (rl.length) { const r = rng.pick(rl); for (const x of lts) if (x !== r && rng.chance(5, 6)) addBound(x, r); }
    }
    const implBounds = owner.bounds.map(([l, s]) => [implLts[owner.lts.indexOf(l)], implLts[owner.lts.indexOf(s)]]).filter(([l, s]) => l !== "static" && s !== "static");
    // `Self` in return position when the returned type is exactly the impl's Self type
    if (ret.ty === owner.name && !(rkind === "struct" || rkind === "resstruct") && !implLts.includes("static") && rng.chance(1, 3)) {
      ret.args = implLts.slice(); ret.selfSpelling = true;
      if (ret.lt) for (const y of ret.args) addBoundLate.push([y, ret.lt]);
    }
    // special-method attributes change how the binding exposes the method (`new T(..)`, a property), not what it borrows
    let special = null;
    if (isStatic && (rkind === "box" || rkind === "resbox") && ret.ty === owner.name && !methods.some((x) => x.owner === owner.name && x.special === "constructor") && rng.chance(1, 2)) special = "constructor";
    else if (!isStatic && params.length === 0 && self.mut && (rkind === "optbox" || rkind === "optref") && !methods.some((x) => x.owner === owner.name && x.special === "iterator") && rng.chance(3, 4)) special = "iterator";
    else if (!isStatic && params.length === 0 && rng.chance(1, 2)) special = "getter";
    for (const [l, sh] of addBoundLate) addBound(l, sh);
    methods.push({ owner: owner.name, name: "m" + m, static: isStatic, lts, implLts, implBounds, self, params, ret, bounds, special, forced });
  }
  // elision (a spelling, decided by its own PRNG stream so that the bridges themselves stay as they were): where Rust's
  // elision rules give the same meaning, the lifetime of a returned reference is left out (`-> &T` for `-> &'x T`)
  const erng = Rng.derive(seed, "gc-sim-elide", idx);
  for (const m of methods) if (elidable(m) && erng.chance(2, 3)) m.elide = true;
  return { seed, idx, opaques, structs, outs, methods, ltScheme: rng.below(3) };
}

/** May the lifetime of the returned reference be left out without changing the signature's meaning?
 *  (A) with a receiver `&'x self` and a return `&'x T`: elided output lifetimes take the receiver's lifetime, whatever the
 *      other parameters are; (B) without a receiver, when the only parameter is one reference `&'x T` / `&'x [u8]` / `&'x str`.
 *  The receiver's / parameter's lifetime stays named: Diplomat rejects an output lifetime that resolves to an anonymous
 *  input ("Found elided lifetime in return type"), and an explicit `'_` makes the tool panic on this tree (C15's subject). */
export function elidable(m) {
  if (!m.ret.lt || !(m.ret.kind === "ref" || m.ret.kind === "optref")) return false;
  if (m.self) return m.self.lt === m.ret.lt;
  if (m.params.length !== 1) return false;
  const p = m.params[0];
  return (p.kind === "opaque" || p.kind === "slice") && !(p.args || []).length && p.lt === m.ret.lt;
}

// ---- Rust text --------------------------------------------------------------------------------------
// How lifetimes are *spelled* in the Rust source (desc.json and the model keep the internal names a..d, s0, s1): the
// generated JS names its edge arrays after the spelled names, and code that matches names textually must not care.
// Scheme 1 and 2 use names that are suffixes of each other, longer-first and shorter-first in declaration order.
const LT_SCHEMES = [{}, { a: "metadata", b: "data", c: "ta", d: "a", s0: "sdata", s1: "s" }, { a: "a", b: "ta", c: "data", d: "metadata", s0: "s", s1: "ns" }];
let LT_NAMES = {};
const lt = (l) => (l === "static" ? "'static" : "'" + (LT_NAMES[l] || l));
function tyArgs(args) { return args.length ? "<" + args.map(lt).join(", ") + ">" : ""; }
function sliceTy(enc, l) {
  const r = l ? "&" + lt(l) + " " : "&";
  return enc === "u8s" ? r + "[u8]" : enc === "u8smut" ? r + "mut [u8]" : enc === "str" ? r + "str" : r + enc;
}
function fieldSliceTy(enc, l) {
  // struct fields must use the FFI-safe runtime spellings
  return enc === "u8s" ? "DiplomatSlice<" + lt(l) + ", u8>" : enc === "str" ? "DiplomatUtf8StrSlice<" + lt(l) + ">" : enc === "DiplomatStr16" ? "DiplomatStr16Slice<" + lt(l) + ">" : "DiplomatStrSlice<" + lt(l) + ">";
}
function paramTy(p) {
  const r = (p.lt ? "&" + lt(p.lt) + " " : "&") + (p.mut ? "mut " : "");
  if (p.kind === "opaque") return r + p.ty + tyArgs(p.args);
  if (p.kind === "optopaque") return "Option<" + r + p.ty + tyArgs(p.args) + ">";
  if (p.kind === "slice") return sliceTy(p.enc, p.lt);
  return p.ty + tyArgs(p.args);
}
function retTy(r, elide) {
  const amp = (l) => (elide ? "&" : "&" + lt(l) + " ");
  const inner = r.selfSpelling ? "Self" : r.ty + tyArgs(r.args);
  switch (r.kind) {
    case "box": return "Box<" + inner + ">";
    case "ref": return amp(r.lt) + inner;
    case "optbox": return "Option<Box<" + inner + ">>";
    case "optref": return "Option<" + amp(r.lt) + inner + ">";
    case "struct": return inner;
    case "resstruct": return "Result<" + inner + ", ()>";
    case "reserr": return "Result<Box<" + inner + ">, Box<" + r.err.ty + tyArgs(r.err.args) + ">>";
    default: return "Result<Box<" + inner + ">, ()>";
  }
}
function generics(lts, bounds) {
  if (!lts.length) return "";
  return "<" + lts.map((l) => { const bs = bounds.filter((b) => b[0] === l).map((b) => lt(b[1])); return lt(l) + (bs.length ? ": " + bs.join(" + ") : ""); }).join(", ") + ">";
}
export function rustSource(spec) {
  LT_NAMES = LT_SCHEMES[spec.ltScheme || 0];
  let s = "// generated by /verif/sim/js/gen.mjs — seed " + spec.seed + " bridge " + spec.idx + "\n#[diplomat::bridge]\nmod ffi {\n    use diplomat_runtime::{DiplomatOption, DiplomatSlice, DiplomatStr, DiplomatStr16, DiplomatStr16Slice, DiplomatStrSlice, DiplomatUtf8StrSlice};\n\n";
  for (const o of spec.opaques) {
    const fields = o.lts.length ? "(" + o.lts.map((l) => "pub &" + lt(l) + " u8").join(", ") + ")" : "(pub u8)";
    s += "    #[diplomat::opaque]\n    pub struct " + o.name + generics(o.lts, o.bounds) + fields + ";\n\n";
  }
  for (const st of [...spec.structs, ...(spec.outs || [])]) {
    s += (st.out ? "    #[diplomat::out]\n" : "") + "    pub struct " + st.name + generics(st.lts, st.bounds) + " {\n";
    for (const f of st.fields) {
      const refTy = "&" + lt(f.lt) + " " + f.ty + tyArgs(f.args || []);
      s += "        pub " + f.name + ": " + (f.kind === "opaque" ? (f.opt ? "Option<" + refTy + ">" : refTy) : f.kind === "struct" ? f.ty + tyArgs(f.args) : f.opt ? "DiplomatOption<" + fieldSliceTy(f.enc, f.lt) + ">" : fieldSliceTy(f.enc, f.lt)) + ",\n";
    }
    s += "    }\n\n";
  }
  for (const o of spec.opaques) {
    const implLts = o.lts.map((_, i) => "s" + i);
    const implBounds = o.bounds.map(([l, sh]) => ["s" + o.lts.indexOf(l), "s" + o.lts.indexOf(sh)]);
    s += "    impl" + generics(implLts, implBounds) + " " + o.name + tyArgs(implLts) + " {\n";
    // public constructors so that the harness never needs generated internals
    if (!o.lts.length) s += "        pub fn mk() -> Box<" + o.name + "> { unimplemented!() }\n";
    else s += "        pub fn mk" + generics(o.lts, o.bounds) + "(" + o.lts.map((l, i) => "src" + i + ": &" + lt(l) + " DiplomatStr").join(", ") + ") -> Box<" + o.name + tyArgs(o.lts) + "> { unimplemented!() }\n";
    s += "        pub fn id(&self) -> u32 { unimplemented!() }\n";
    s += "    }\n\n";
    for (const m of spec.methods.filter((m) => m.owner === o.name)) {
      const ps = [];
      if (m.self) ps.push((m.self.lt ? "&" + lt(m.self.lt) + " " : "&") + (m.self.mut ? "mut " : "") + "self");
      for (const p of m.params) ps.push(p.name + ": " + paramTy(p));
      const named = m.implLts.filter((l) => l !== "static");
      s += "    impl" + generics(named, m.implBounds) + " " + o.name + tyArgs(m.implLts) + " {\n";
      // bounds whose longer side is a lifetime of the impl block go into a where clause
      const outer = [...new Set(m.bounds.filter((b) => !m.lts.includes(b[0])).map((b) => b[0]))];
      const where = outer.length ? " where " + outer.map((l) => lt(l) + ": " + m.bounds.filter((b) => b[0] === l).map((b) => lt(b[1])).join(" + ")).join(", ") : "";
      if (m.special) s += "        #[diplomat::attr(auto, " + m.special + ")]\n";
      s += "        pub fn " + m.name + generics(m.lts, m.bounds) + "(" + ps.join(", ") + ") -> " + retTy(m.ret, m.elide) + where + " { unimplemented!() }\n";
      s += "    }\n\n";
    }
  }
  return s + "}\n";
}

// ---- the independent model ------------------------------------------------------------------------
/** reflexive-transitive outlives relation of a method, from the signature alone */
export function outlives(spec, m) {
  const rel = new Map(); // longer -> Set(shorter)
  const add = (l, s) => { if (!l || !s || l === s) return; if (!rel.has(l)) rel.set(l, new Set()); rel.get(l).add(s); };
  for (const [l, s] of m.bounds) add(l, s);
  for (const [l, s] of m.implBounds) add(l, s);
  const ref = (outer, args) => { if (outer) for (const a of args) if (a !== "static") add(a, outer); }; // &'x T<'y> implies 'y: 'x
  const defBounds = (tyName, args) => {
    const def = [...spec.opaques, ...spec.structs, ...(spec.outs || [])].find((o) => o.name === tyName);
    if (def) for (const [l, s] of def.bounds) add(args[def.lts.indexOf(l)], args[def.lts.indexOf(s)]);
  };
  if (m.self) ref(m.self.lt, m.implLts);
  for (const p of m.params) {
    if (p.kind === "opaque" || p.kind === "optopaque") { ref(p.lt, p.args); defBounds(p.ty, p.args); }
    if (p.kind === "struct") defBounds(p.ty, p.args);
  }
  if (m.ret.lt) ref(m.ret.lt, m.ret.args);
  defBounds(m.ret.ty, m.ret.args);
  if (m.ret.err) defBounds(m.ret.err.ty, m.ret.err.args);
  // closure
  const all = new Set([...m.lts, ...m.implLts.filter((l) => l !== "static")]);
  const out = (x, y) => x === y || x === "static" || reach(x).has(y);
  const memo = new Map();
  function reach(x) {
    if (memo.has(x)) return memo.get(x);
    const seen = new Set(); const stack = [x];
    while (stack.length) { const c = stack.pop(); for (const n of rel.get(c) || []) if (!seen.has(n)) { seen.add(n); stack.push(n); } }
    memo.set(x, seen); return seen;
  }
  return { out, all };
}

/** lifetimes (named, non-static) of the return type: per slot k of the returned type, plus the outer reference */
export function returnLifetimes(m) {
  return { slots: m.ret.args.map((a) => (a === "static" ? null : a)), outer: m.ret.lt };
}

/** for the evidence and the ground-truth validation: which parameters may lend to the return value */
export function computeLenders(spec, m) {
  const { out } = outlives(spec, m);
  const R = [...m.ret.args.filter((a) => a !== "static"), ...(m.ret.lt ? [m.ret.lt] : []), ...(m.ret.err ? m.ret.err.args.filter((a) => a !== "static") : [])];
  const lends = (mentions) => mentions.some((x) => x && x !== "static" && R.some((r) => out(x, r)));
  const res = [];
  if (m.self && lends([m.self.lt, ...m.implLts])) res.push("self");
  for (const p of m.params) {
    if (p.kind === "slice") { if (lends([p.lt])) res.push(p.name); }
    else if (p.kind === "struct") { if (lends(p.args)) res.push(p.name); }
    else if (lends([p.lt, ...p.args])) res.push(p.name);
  }
  return res;
}

/** A fixed bridge of delicate signature shapes (each one is inside C04's grammar; most were suggested by property-breaking
 *  changes that random generation reaches only rarely). It is run next to the generated bridges, with the same executor. */
function catalogueSpec() {
  const O = (name, lts, bounds = []) => ({ name, lts, bounds });
  const op = (name, ty, l, args = [], extra = {}) => ({ name, kind: "opaque", ty, lt: l, args, ...extra });
  const sl = (name, l, enc = "DiplomatStr") => ({ name, kind: "slice", enc, lt: l });
  const M = (owner, name, o) => ({ owner, name, static: !o.self, lts: o.lts || [], implLts: o.implLts || [], implBounds: o.implBounds || [], self: o.self || null, params: o.params || [], ret: o.ret, bounds: o.bounds || [], special: null });
  const box = (ty, args = []) => ({ kind: "box", ty, lt: null, args });
  const ref = (ty, l, args = []) => ({ kind: "ref", ty, lt: l, args });
  const opaques = [O("O0", []), O("O1", ["a"]), O("O2", ["a", "b"])];
  const structs = [
    { name: "S0", lts: ["a", "b"], bounds: [], fields: [{ name: "f0", kind: "opaque", ty: "O0", lt: "a", args: [] }, { name: "f1", kind: "opaque", ty: "O0", lt: "b", args: [] }] },
    { name: "S1", lts: ["a"], bounds: [], fields: [{ name: "f0", kind: "slice", enc: "DiplomatStr", lt: "a", opt: true }, { name: "f1", kind: "opaque", ty: "O0", lt: "a", args: [] }] },
  ];
  // a field `&'r T<'s>` whose reference slot and generic slot are different slots of the struct, declared in either order
  structs.push({ name: "S2", lts: ["a", "b"], bounds: [["b", "a"]], fields: [{ name: "f0", kind: "opaque", ty: "O1", lt: "a", args: ["b"] }] });
  structs.push({ name: "S3", lts: ["a", "b"], bounds: [["a", "b"]], fields: [{ name: "f0", kind: "opaque", ty: "O1", lt: "b", args: ["a"] }] });
  // two slice-carrying slots, the narrower-slot field first
  structs.push({ name: "S4", lts: ["a", "b"], bounds: [], fields: [{ name: "f0", kind: "slice", enc: "DiplomatStr", lt: "a", opt: false }, { name: "f1", kind: "slice", enc: "str", lt: "b", opt: false }] });
  const outs = [{ name: "R0", lts: ["a", "b"], bounds: [], out: true, fields: [{ name: "f0", kind: "opaque", ty: "O0", lt: "b", args: [], opt: false }, { name: "f1", kind: "opaque", ty: "O0", lt: "a", args: [], opt: false }] }];
  const methods = [
    // struct slots instantiated with one lifetime
    M("O0", "m0", { lts: ["a"], params: [{ name: "p0", kind: "struct", ty: "S0", args: ["a", "a"] }], ret: box("O1", ["a"]) }),
    // a slice that lends only through a declared / an implied bound
    M("O0", "m1", { lts: ["a", "b"], bounds: [["b", "a"]], params: [sl("p0", "b")], ret: box("O1", ["a"]) }),
    M("O0", "m2", { lts: ["a", "b"], params: [op("p0", "O1", "a", ["b"]), sl("p1", "b", "str")], ret: box("O1", ["a"]) }),
    // re-converging bound graphs
    M("O0", "m3", { lts: ["a", "b", "c", "d"], bounds: [["b", "a"], ["c", "a"], ["c", "d"], ["d", "a"]], self: { lt: "a" }, params: [op("p0", "O0", "b"), op("p1", "O0", "c"), op("p2", "O0", "d")], ret: ref("O0", "a") }),
    M("O0", "m4", { lts: ["a", "b", "c", "d"], bounds: [["b", "a"], ["c", "d"]], params: [op("p0", "O0", "b"), op("p1", "O2", "a", ["c", "d"])], ret: box("O1", ["a"]) }),
    // optional slice field of a struct
    M("O0", "m5", { lts: ["a"], params: [{ name: "p0", kind: "struct", ty: "S1", args: ["a"] }], ret: box("O1", ["a"]) }),
    // Self type with a 'static slot before a named one
    M("O2", "m6", { lts: ["a"], implLts: ["static", "s1"], self: { lt: "a" }, params: [op("p0", "O0", "s1")], ret: ref("O0", "a") }),
    // out-struct whose fields mention the lifetimes out of declaration order
    M("O0", "m7", { lts: ["a", "b"], self: { lt: "a" }, params: [op("p0", "O0", "b")], ret: { kind: "struct", ty: "R0", lt: null, args: ["a", "b"] } }),
    // two borrowed slices in one call, the survivor borrows only from the second
    M("O0", "m8", { lts: ["a", "b"], params: [sl("p0", "a"), sl("p1", "b")], ret: { kind: "resbox", ty: "O1", lt: null, args: ["b"] } }),
    // a method on the impl's lifetimes only; the receiver's first slot is the borrow lifetime itself
    M("O2", "m9", { lts: [], implLts: ["s0", "s1"], self: { lt: "s0" }, params: [op("p0", "O0", "s1")], ret: ref("O0", "s0") }),
    // struct parameter with a 'static slot before the lending one
    M("O0", "m10", { lts: ["a"], params: [{ name: "p0", kind: "struct", ty: "S0", args: ["static", "a"] }], ret: box("O1", ["a"]) }),
    // plain by-reference return and a getter-like accessor
    M("O1", "m11", { lts: ["a"], implLts: ["s0"], self: { lt: "a" }, ret: ref("O0", "a") }),
    // the result borrows only through the *generic* lifetime of a struct field `&'r T<'x>`
    M("O0", "m13", { lts: ["a", "b"], bounds: [["b", "a"]], params: [{ name: "p0", kind: "struct", ty: "S2", args: ["a", "b"] }], ret: box("O1", ["b"]) }),
    M("O0", "m14", { lts: ["a", "b"], bounds: [["b", "a"]], params: [{ name: "p0", kind: "struct", ty: "S3", args: ["b", "a"] }], ret: box("O1", ["b"]) }),
    // the error arm of a Result is an opaque that borrows from a slice argument (same and different lifetime as the Ok arm)
    M("O0", "m15", { lts: ["a"], params: [sl("p0", "a")], ret: { kind: "reserr", ty: "O1", lt: null, args: ["a"], err: { ty: "O1", args: ["a"] } } }),
    M("O0", "m16", { lts: ["a", "b"], params: [sl("p0", "a"), sl("p1", "b", "str")], ret: { kind: "reserr", ty: "O1", lt: null, args: ["a"], err: { ty: "O1", args: ["b"] } } }),
    // slices inside a struct argument, handed on to the fields of a returned struct through different edge arrays
    M("O0", "m17", { lts: ["a", "b"], bounds: [["b", "a"]], params: [{ name: "p0", kind: "struct", ty: "S4", args: ["a", "b"] }], ret: { kind: "struct", ty: "R0", lt: null, args: ["a", "b"] } }),
    M("O0", "m18", { lts: ["a", "b"], bounds: [["a", "b"]], params: [{ name: "p0", kind: "struct", ty: "S4", args: ["a", "b"] }], ret: { kind: "struct", ty: "R0", lt: null, args: ["a", "b"] } }),
    // an opaque parameter with a 'static argument before / after the lending one, plain and optional
    M("O0", "m19", { lts: ["a", "b"], params: [op("p0", "O2", "b", ["static", "a"])], ret: box("O1", ["a"]) }),
    M("O0", "m20", { lts: ["a", "b"], params: [{ name: "p0", kind: "optopaque", ty: "O2", lt: "b", args: ["a", "static"] }, { name: "p1", kind: "optopaque", ty: "O2", lt: "b", args: ["static", "a"] }], ret: box("O1", ["a"]) }),
    // iterators: `next(&mut self)` yields values that borrow for the iterator type's own lifetime, not from the iterator
    { ...M("O1", "m21", { lts: [], implLts: ["s0"], self: { lt: null, mut: true }, ret: { kind: "optref", ty: "O0", lt: "s0", args: [] } }), special: "iterator" },
    { ...M("O2", "m22", { lts: [], implLts: ["s0", "s1"], self: { lt: null, mut: true }, ret: { kind: "optbox", ty: "O1", lt: null, args: ["s1"] } }), special: "iterator" },
    M("O2", "m12", { lts: ["a"], implLts: ["s0", "s1"], self: { lt: "a" }, params: [{ name: "p0", kind: "optopaque", ty: "O0", lt: "a", args: [] }], ret: { kind: "optref", ty: "O0", lt: "a", args: [] } }),
    // elided output lifetimes (`elide` is a spelling: `-> &T` for `-> &'x T`; the model keeps the name): the receiver's
    // lifetime wins over the parameters', whether there are none, one (named or anonymous, plain, optional, a slice) or several
    { ...M("O1", "m23", { lts: ["a"], implLts: ["s0"], self: { lt: "a" }, ret: ref("O0", "a") }), elide: true },
    { ...M("O0", "m24", { lts: ["a", "b"], self: { lt: "a" }, params: [op("p0", "O0", "b")], ret: ref("O0", "a") }), elide: true },
    { ...M("O0", "m25", { lts: ["a", "b"], self: { lt: "a", mut: true }, params: [{ name: "p0", kind: "optopaque", ty: "O0", lt: "b", args: [] }], ret: { kind: "optref", ty: "O0", lt: "a", args: [] } }), elide: true },
    { ...M("O0", "m26", { lts: ["a", "b"], bounds: [["b", "a"]], self: { lt: "a" }, params: [op("p0", "O0", "b")], ret: ref("O1", "a", ["b"]) }), elide: true },
    { ...M("O0", "m27", { lts: ["a"], self: { lt: "a" }, params: [op("p0", "O0", null), sl("p1", null)], ret: ref("O0", "a") }), elide: true },
    { ...M("O0", "m28", { lts: ["a", "b"], self: { lt: "a" }, params: [sl("p0", "b", "str")], ret: ref("O0", "a") }), elide: true },
    { ...M("O0", "m29", { lts: ["a", "b", "c"], self: { lt: "a" }, params: [op("p0", "O0", "b"), op("p1", "O0", "c")], ret: ref("O0", "a") }), elide: true },
    { ...M("O0", "m30", { lts: ["a"], params: [op("p0", "O0", "a")], ret: { kind: "optref", ty: "O0", lt: "a", args: [] } }), elide: true },
    { ...M("O0", "m31", { lts: ["a"], params: [sl("p0", "a")], ret: ref("O0", "a") }), elide: true },
    { ...M("O2", "m32", { lts: ["a", "b"], bounds: [["s1", "a"]], implLts: ["s0", "s1"], self: { lt: "a" }, params: [op("p0", "O1", "b", ["b"])], ret: ref("O1", "a", ["s1"]) }), elide: true },
  ];
  return { seed: 0, idx: -1, catalogue: true, opaques, structs, outs, methods, ltScheme: 1 };
}

/** Signatures whose methods do NOT restate a bound that a used type's definition implies. Diplomat's own validation is
 *  expected to reject them ("Method should explicitly include this lifetime bound"), and a rejected bridge needs no
 *  checking. If a tree accepts one, C04 applies to it like to any accepted method: Rust's rules (implied bounds from the
 *  well-formedness of the argument and return types) still make the extra parameter a lender, and the model says so. */
function negativeSpecs() {
  const O = (name, lts, bounds = []) => ({ name, lts, bounds });
  const op = (name, ty, l, args = []) => ({ name, kind: "opaque", ty, lt: l, args });
  const M = (owner, name, o) => ({ owner, name, static: !o.self, lts: o.lts || [], implLts: [], implBounds: [], self: o.self || null, params: o.params || [], ret: o.ret, bounds: o.bounds || [], special: null });
  const box = (ty, args = []) => ({ kind: "box", ty, lt: null, args });
  const fld = (name, l) => ({ name, kind: "opaque", ty: "O0", lt: l, args: [] });
  const base = () => [O("O0", []), O("O1", ["a"]), O("O2", ["a", "b"], [["b", "a"]])];
  const mk = (k, structs, methods) => ({ seed: 0, idx: -(10 + k), negative: true, opaques: base(), structs, outs: [], methods });
  const P3 = { name: "S0", lts: ["a", "b", "c"], bounds: [["c", "b"]], fields: [fld("f0", "a"), fld("f1", "b"), fld("f2", "c")] };
  const P3b = { name: "S0", lts: ["a", "b", "c"], bounds: [["c", "a"]], fields: [fld("f0", "a"), fld("f1", "b"), fld("f2", "c")] };
  const S2 = { name: "S0", lts: ["a", "b"], bounds: [["b", "a"]], fields: [fld("f0", "a"), fld("f1", "b")] };
  return [
    // the same method lifetime in two slots, the definition's bound sits on the later of them
    mk(0, [P3], [M("O0", "m0", { lts: ["a", "b"], params: [{ name: "p0", kind: "struct", ty: "S0", args: ["a", "a", "b"] }, op("p1", "O0", "b")], ret: box("O1", ["a"]) })]),
    mk(1, [P3b], [M("O0", "m0", { lts: ["a", "b"], params: [{ name: "p0", kind: "struct", ty: "S0", args: ["a", "a", "b"] }, op("p1", "O0", "b")], ret: box("O1", ["a"]) })]),
    // plain cases: a struct's / an opaque's definition bound left implicit
    mk(2, [S2], [M("O0", "m0", { lts: ["a", "b"], params: [{ name: "p0", kind: "struct", ty: "S0", args: ["a", "b"] }, op("p1", "O0", "b")], ret: box("O1", ["a"]) })]),
    mk(3, [], [M("O0", "m0", { lts: ["a", "b"], params: [op("p0", "O2", null, ["a", "b"]), op("p1", "O0", "b")], ret: box("O1", ["a"]) })]),
  ];
}

/** a generated bridge in which one method drops one of the bounds it is forced to restate (see negativeSpecs) */
function omitSpec(seed, idx) {
  const rng = Rng.derive(seed, "gc-sim-omit", idx);
  for (let tries = 0; tries < 40; tries++) {
    const spec = genSpec(seed, 500000 + idx * 40 + tries);
    const cands = spec.methods.filter((m) => m.forced && m.forced.length);
    if (!cands.length) continue;
    const m = rng.pick(cands);
    const [l, sh] = rng.pick(m.forced);
    m.bounds = m.bounds.filter((b) => !(b[0] === l && b[1] === sh));
    spec.methods = [m]; // the other methods would only be rejected along with it or dilute the schedules
    m.name = "m0";
    spec.negative = true; spec.idx = 1000000 + idx;
    return spec;
  }
  return null;
}

export { genSpec, catalogueSpec, negativeSpecs, omitSpec };

// ---- CLI ---------------------------------------------------------------------------------------------
if (process.argv[1] && process.argv[1].endsWith("gen.mjs")) {
  const args = process.argv.slice(2); const kv = {};
  for (let i = 0; i < args.length; i += 2) kv[args[i].replace(/^--/, "")] = args[i + 1];
  const spec = kv.catalogue ? catalogueSpec() : kv.negative !== undefined ? negativeSpecs()[Number(kv.negative)] : kv.omit !== undefined ? omitSpec(Number(kv.seed ?? 20261002), Number(kv.omit)) : genSpec(Number(kv.seed ?? 20261002), Number(kv.bridge ?? 0));
  if (!spec) { console.log("NO-SPEC"); process.exit(3); }
  // methods the tool's lowering gate rejected on the tree under test (lib/c04.py retries without them): a rejected method
  // needs no checking, and it must not take the rest of its bridge with it
  if (kv.drop) { const drop = new Set(kv.drop.split(",")); spec.methods = spec.methods.filter((m) => !drop.has(m.owner + "::" + m.name)); spec.dropped = [...drop]; }
  const out = kv.out;
  fs.mkdirSync(path.join(out, "src"), { recursive: true });
  fs.writeFileSync(path.join(out, "src", "lib.rs"), rustSource(spec));
  for (const m of spec.methods) m.modelLenders = computeLenders(spec, m);
  fs.writeFileSync(path.join(out, "desc.json"), JSON.stringify(spec, null, 1));
}
