// gc-sim — deterministic simulation of garbage-collection schedules against the JS bindings
// `diplomat-tool js` generates (property C04, DESIGN.md §4).
//
//   node --expose-gc gcsim.mjs --dir <bridge dir> --seed S --from A --to B      (sampled traces)
//   node --expose-gc gcsim.mjs --dir <bridge dir> --replay <trace.json>
//
// <bridge dir> holds desc.json (written by gen.mjs) and api/ (written by the real tool); api/diplomat-wasm.mjs
// has been replaced by `export default globalThis.__vsim_wasm`. The harness touches the generated classes only
// through their public API. V8 decides reachability (gc() under --expose-gc); *which* dead registration is
// finalized *when* is decided by the trace alone.
//
// exit 0 ok / 1 violation (VIOLATION line + REPLAY block) / 2 harness error

import fs from "node:fs";
import path from "node:path";
import { pathToFileURL } from "node:url";
import { Rng, fnv1a64hex } from "./prng.mjs";
import { outlives } from "./gen.mjs";

const PROP = "C04";
const NSLOT = 6;
const tick = () => new Promise((r) => setImmediate(r));

// ---- simulated FinalizationRegistry ---------------------------------------------------------------
const RealWeakRef = globalThis.WeakRef;
const registries = [];
let pending = []; // dead registrations whose callback has not run yet, in registration order
let regSeq = 0;
class SimRegistry {
  constructor(cb) { this.cb = cb; this.entries = []; registries.push(this); }
  register(target, held, token) {
    if (typeof target !== "object" && typeof target !== "function") throw new TypeError("SimRegistry.register: target must be an object");
    this.entries.push({ ref: new RealWeakRef(target), held, token, seq: regSeq++, reg: this, queued: false });
  }
  unregister(token) { const n = this.entries.length; this.entries = this.entries.filter((e) => e.token !== token); return this.entries.length !== n; }
}
function registriesReset() { for (const r of registries) r.entries = []; pending = []; regSeq = 0; owners = []; ownersOf = new Map(); }
// ---- owner tracking (reachability of whatever is responsible for a wasm buffer) --------------------------
// The bindings tie a borrowed buffer to an owner object (a CleanupArena created for a struct's slice fields, or the
// DiplomatBuf handed to the collector) and put that owner on the edge arrays. When the owner is collected the buffer's
// memory is released by the owner's finalizer — on some paths of this tree that finalizer throws or is never
// registered, so the memory leaks instead and a missing attachment would never show as a free. The owner being
// collected while a borrower is still held is the violation either way, so it is observed directly: `alloc` of the
// generated runtime's arena / grip classes is wrapped (observation only) to learn who owns which buffer.
let owners = [];           // { ref: WeakRef(owner), dead }
let ownersOf = new Map();  // buffer address -> [owner records]
function noteOwner(ownerObj, ptr, recs) {
  if (typeof ptr !== "number" || (typeof ownerObj !== "object" && typeof ownerObj !== "function") || ownerObj === null) return;
  let r = recs.get(ownerObj);
  if (!r || !owners.includes(r)) { r = { ref: new RealWeakRef(ownerObj), dead: false }; recs.set(ownerObj, r); owners.push(r); }
  if (!ownersOf.has(ptr)) ownersOf.set(ptr, []);
  if (!ownersOf.get(ptr).includes(r)) ownersOf.get(ptr).push(r);
}
function installOwnerTracking(rt) {
  const recs = new WeakMap();
  const wrap = (cls, label, ownerIsItem) => {
    if (!cls || !cls.prototype || typeof cls.prototype.alloc !== "function") { inc("owner_tracking_unavailable_" + label); return; }
    const real = cls.prototype.alloc;
    cls.prototype.alloc = function (item) {
      // the allocating object and the buffer object itself both count as owners: the buffer is only "gone" when
      // neither is reachable any more (a runtime that keeps the buffer object alive some other way is not accused)
      try { noteOwner(item, item && item.ptr, recs); if (!ownerIsItem) noteOwner(this, item && item.ptr, recs); } catch (e) { /* observation only */ }
      return real.call(this, item);
    };
  };
  wrap(rt.CleanupArena, "arena", false);
  wrap(rt.GarbageCollectorGrip, "grip", true);
}
function collectDeadOwners() {
  for (const o of owners) if (!o.dead && o.ref.deref() === undefined) { o.dead = true; inc("buffer_owner_collected"); }
}
function ownerGone(alloc) {
  const rs = ownersOf.get(alloc.addr);
  return !!rs && rs.length > 0 && rs.every((r) => r.dead);
}
function collectDead() {
  collectDeadOwners();
  let n = 0;
  for (const r of registries) for (const e of r.entries) if (!e.queued && e.ref.deref() === undefined) { e.queued = true; pending.push(e); n++; }
  pending.sort((a, b) => a.seq - b.seq);
  for (const r of registries) r.entries = r.entries.filter((e) => !e.queued);
  return n;
}
globalThis.FinalizationRegistry = SimRegistry;

// ---- model wasm -----------------------------------------------------------------------------------
const BASE = 0x10000;
const W = {
  memory: null, brk: BASE, allocs: new Map(), objs: new Map(), armGrow: false, armThrow: false, pendingCall: null, lastReturn: null,
  violation: null, counters: {}, log: [], nextObjId: 1, spec: null, step: 0,
};
function inc(k, n = 1) { W.counters[k] = (W.counters[k] || 0) + n; }
function violate(oracle, detail) { if (!W.violation) W.violation = { oracle, detail, step: W.step }; }
function wasmReset() {
  W.memory = new WebAssembly.Memory({ initial: 4, maximum: 64 });
  W.brk = BASE; W.allocs = new Map(); W.objs = new Map(); W.armGrow = false; W.armThrow = false; W.pendingCall = null; W.lastReturn = null; W.lastReturnIsErr = false;
  W.violation = null; W.log = []; W.nextObjId = 1; W.step = 0;
}
function ensureMem(end) { while (end > W.memory.buffer.byteLength) W.memory.grow(1); }
function alloc(size, align) {
  if (W.armGrow) { W.armGrow = false; if (W.memory.buffer.byteLength < 60 * 65536) { W.memory.grow(1); inc("fault_memory_grown_fired"); } }
  align = Math.max(1, align | 0);
  let addr = Math.ceil(W.brk / Math.max(align, 16)) * Math.max(align, 16);
  W.brk = addr + Math.max(size, 1) + 16; // never reused, never adjacent
  ensureMem(W.brk);
  W.allocs.set(addr, { addr, size, freed: false });
  return addr;
}
function findAlloc(ptr) { for (const a of W.allocs.values()) if (ptr >= a.addr && ptr < a.addr + Math.max(a.size, 1)) return a; return null; }
function newObj(type, extra) {
  const addr = alloc(8, 8); W.allocs.delete(addr); // object space: not a diplomat_alloc allocation
  const ent = { kind: "obj", id: W.nextObjId++, addr, type, destroyed: false, borrowedReturn: false, slots: [], storage: new Set(), ...extra };
  W.objs.set(addr, ent);
  return ent;
}
function tagBytes(tag, enc) {
  if (enc === "DiplomatStr16") { const b = Buffer.alloc(tag.length * 2); for (let i = 0; i < tag.length; i++) b.writeUInt16LE(tag.charCodeAt(i), i * 2); return b; }
  return Buffer.from(tag, "utf8");
}
function findTag(tag, enc) {
  const needle = tagBytes(tag, enc);
  const mem = Buffer.from(W.memory.buffer);
  for (const a of W.allocs.values()) {
    if (a.freed || a.size < needle.length) continue;
    if (mem.subarray(a.addr, a.addr + a.size).indexOf(needle) >= 0) return a;
  }
  return null;
}
function bufIntact(b) {
  if (!b.alloc || b.alloc.freed) return false;
  const mem = Buffer.from(W.memory.buffer);
  return mem.subarray(b.alloc.addr, b.alloc.addr + b.alloc.size).indexOf(tagBytes(b.tag, b.enc)) >= 0;
}
function checkArgs(name, args, skipFirst) {
  for (let i = skipFirst ? 1 : 0; i < args.length; i++) {
    const a = typeof args[i] === "bigint" ? Number(args[i]) : args[i];
    if (typeof a !== "number" || a < BASE) continue;
    const o = W.objs.get(a);
    if (o) { if (o.destroyed) violate("S2-dangling-argument", `${name}: argument ${i} is the address of ${o.type}#${o.id}, which was already destroyed`); continue; }
    const al = findAlloc(a);
    if (al) { if (al.freed) violate("S2-dangling-argument", `${name}: argument ${i} points into a buffer that was already freed`); continue; }
  }
}

/** borrow sets of the value(s) a call returns, from the signature model alone (gen.mjs::outlives) */
function borrowComputer(m, call) {
  const { out } = outlives(W.spec, m);
  const allStructs = [...W.spec.structs, ...(W.spec.outs || [])];
  return (r) => {
    const set = new Set();
    if (!r) return set;
    const addParam = (outer, args, ent) => {
      if (!ent) return;
      if (outer && outer !== "static" && out(outer, r)) set.add(ent);
      args.forEach((y, j) => { if (y !== "static" && out(y, r)) for (const e of ent.slots[j] || []) set.add(e); });
    };
    const addStruct = (sname, actualArgs, value) => {
      const sdef = allStructs.find((s) => s.name === sname);
      const sub = (l) => actualArgs[sdef.lts.indexOf(l)];
      sdef.fields.forEach((f, fi) => {
        const fv = value ? value[fi] : null;
        if (!fv) return;
        if (f.kind === "slice") { if (sub(f.lt) !== "static" && out(sub(f.lt), r)) set.add(fv); }
        else if (f.kind === "struct") addStruct(f.ty, f.args.map(sub), fv);
        else addParam(sub(f.lt), f.args.map(sub), fv);
      });
    };
    if (m.self) addParam(m.self.lt, m.implLts, call.self);
    m.params.forEach((p, i) => {
      const v = call.args[i];
      if (p.kind === "opaque" || p.kind === "optopaque") addParam(p.lt, p.args, v);
      else if (p.kind === "slice") { if (p.lt && out(p.lt, r) && v) set.add(v); }
      else if (p.kind === "struct" && v) addStruct(p.ty, p.args, v);
    });
    return set;
  };
}
function returnBorrows(m, call) {
  const compute = borrowComputer(m, call);
  return { slots: m.ret.args.map((a) => compute(a === "static" ? null : a)), storage: compute(m.ret.lt) };
}
/** a by-value out-struct: one by-reference pseudo-object per field */
function structReturnFields(m, call, noneMask) {
  const compute = borrowComputer(m, call);
  const sdef = W.spec.outs.find((s) => s.name === m.ret.ty);
  const sub = (l) => m.ret.args[sdef.lts.indexOf(l)];
  return sdef.fields.map((f, fi) => {
    if (f.opt && (noneMask >> fi) & 1) return null;
    const ent = newObj(f.ty);
    ent.borrowedReturn = true;
    ent.storage = compute(sub(f.lt));
    ent.slots = f.args.map((a) => compute(sub(a)));
    return ent;
  });
}

function exportFn(name) {
  if (name === "memory") return W.memory;
  if (name === "diplomat_init") return () => {};
  if (name === "diplomat_alloc") return (size, align) => alloc(size, align);
  if (name === "diplomat_free") return (ptr, size, align) => {
    const a = W.allocs.get(ptr);
    if (!a) { violate("S3-bad-free", `diplomat_free(${ptr}) of something that is not an allocation`); return; }
    if (a.freed) { violate("S3-double-free", "diplomat_free called twice for the same buffer"); return; }
    a.freed = true; inc("buffers_freed");
    new Uint8Array(W.memory.buffer, a.addr, a.size).fill(0xdd);
  };
  const us = name.indexOf("_");
  const type = name.slice(0, us), meth = name.slice(us + 1);
  const odef = W.spec && W.spec.opaques.find((o) => o.name === type);
  if (!odef) return undefined;
  if (meth === "destroy") return (ptr) => {
    const o = W.objs.get(ptr);
    if (!o || o.type !== type) { violate("S3-bad-destroy", `${name}(${ptr}): not a live ${type}`); return; }
    if (o.destroyed) { violate("S3-double-destroy", `${type}#${o.id} destroyed twice`); return; }
    if (o.borrowedReturn) {
      if (o.storage.size > 0) { violate("S3-borrowed-return-destroyed", `${type}#${o.id} was returned by reference (it lives inside one of its lenders) but its wrapper destroyed it`); return; }
      inc("probe_borrowed_return_without_lender_destroyed");
    }
    o.destroyed = true; inc("objects_destroyed");
  };
  if (meth === "id") return (ptr) => { checkArgs(name, [ptr]); const o = W.objs.get(ptr); return o ? o.id : 0; };
  return (...args) => {
    const call = W.pendingCall;
    if (!call || call.abi !== name) { violate("HARNESS", `unexpected export call ${name}`); return 0; }
    W.pendingCall = null;
    const m = call.method;
    const res = m.ret && (m.ret.kind === "resbox" || m.ret.kind === "resstruct" || m.ret.kind === "reserr");
    const viaBuf = res || (m.ret && m.ret.kind === "struct");
    checkArgs(name, args, viaBuf);
    if (W.armThrow) { W.armThrow = false; inc("fault_export_threw_fired"); throw new Error("injected fault: Rust panic routed through diplomat_throw_error_js"); }
    // resolve the slice arguments to the buffers that now carry their tag bytes
    const resolveBuf = (b) => { if (b && b.kind === "buf" && !b.alloc) { b.alloc = findTag(b.tag, b.enc); if (!b.alloc) violate("S2-slice-not-passed", `${name}: the bytes of slice argument "${b.tag}" are not in any live buffer during the call`); } };
    const resolveAll = (v) => { if (!v) return; if (Array.isArray(v)) v.forEach(resolveAll); else resolveBuf(v); };
    call.args.forEach(resolveAll);
    let ent;
    if (call.isMk) {
      ent = newObj(type); ent.slots = call.args.map((b) => new Set(b ? [b] : []));
    } else {
      const arm = call.arm;
      if ((m.ret.kind === "optbox" || m.ret.kind === "optref") && !arm) { inc("fault_arm_none_fired"); return 0; }
      if (m.ret.kind === "struct" || m.ret.kind === "resstruct") {
        const sdef = W.spec.outs.find((x) => x.name === m.ret.ty);
        const flagAt = args[0] + 4 * sdef.fields.length;
        if (res && !arm) { inc("fault_arm_err_fired"); new Uint8Array(W.memory.buffer)[flagAt] = 0; return; }
        const fields = structReturnFields(m, call, call.noneMask || 0);
        const dv = new DataView(W.memory.buffer);
        fields.forEach((e, i) => dv.setUint32(args[0] + 4 * i, e ? e.addr : 0, true));
        if (res) dv.setUint8(flagAt, 1);
        W.lastReturn = { kind: "struct", fields, def: sdef };
        inc("struct_returned");
        return;
      }
      if (res && !arm && m.ret.kind === "reserr") {
        // the error arm carries an opaque that borrows whatever its own lifetime arguments allow
        inc("fault_arm_err_fired"); inc("fault_arm_err_with_borrowing_payload_fired");
        const compute = borrowComputer(m, call);
        const e = newObj(m.ret.err.ty); e.slots = m.ret.err.args.map((a) => compute(a === "static" ? null : a));
        const dv = new DataView(W.memory.buffer); dv.setUint32(args[0], e.addr, true); dv.setUint8(args[0] + 4, 0);
        W.lastReturn = e; W.lastReturnIsErr = true;
        return;
      }
      if (res && !arm) { inc("fault_arm_err_fired"); new Uint8Array(W.memory.buffer)[args[0] + 4] = 0; return; }
      const b = returnBorrows(m, call);
      ent = newObj(m.ret.ty); ent.slots = b.slots;
      if (m.ret.kind === "ref" || m.ret.kind === "optref") { ent.borrowedReturn = true; ent.storage = b.storage; }
      if (res) { const dv = new DataView(W.memory.buffer); dv.setUint32(args[0], ent.addr, true); dv.setUint8(args[0] + 4, 1); W.lastReturn = ent; return; }
    }
    W.lastReturn = ent;
    return ent.addr;
  };
}
globalThis.__vsim_wasm = new Proxy({}, { get(_, name) { if (typeof name !== "string") return undefined; const f = exportFn(name); if (f === undefined && name !== "then") violate("HARNESS", `generated code used unknown export ${name}`); return f; } });

// ---- trace generation ----------------------------------------------------------------------------------
function methodAbi(m) { return m.owner + "_" + m.name; }
function genTrace(spec, seed, bridge, run) {
  const rng = Rng.derive(seed, "gc-sim-trace-" + bridge, run);
  const maxOps = rng.pick([4, 6, 8, 12, 16, 25]);
  const gcRate = rng.pick([2, 4, 6]), finRate = rng.pick([1, 3, 5]), dropRate = rng.pick([2, 3, 5]), faultRate = rng.pick([0, 0, 1, 2]);
  const noneRate = rng.pick([0, 2, 4]);
  const types = new Array(NSLOT).fill(null);
  const ops = [];
  let avoid = new Set();
  const slotOf = (ty) => {
    const c = []; types.forEach((t, i) => { if (t === ty) c.push(i); });
    if (!c.length) return -1;
    // prefer objects not yet used by this call: distinct lenders are what edge arrays have to tell apart
    const fresh = c.filter((i) => !avoid.has(i));
    const pick = rng.pick(fresh.length ? fresh : c);
    avoid.add(pick);
    return pick;
  };
  const free = () => { const c = []; types.forEach((t, i) => { if (!t) c.push(i); }); return c.length ? rng.pick(c) : -1; };
  const n = 2 + rng.below(maxOps);
  for (let i = 0; i < n; i++) {
    const r = rng.below(24);
    if (r < gcRate) { ops.push({ op: "gc" }); continue; }
    if (r < gcRate + finRate) { ops.push({ op: "fin", k: rng.below(8) }); continue; }
    if (r < gcRate + finRate + dropRate) { const s = rng.below(NSLOT); ops.push({ op: "drop", slot: s }); types[s] = null; continue; }
    if (r < gcRate + finRate + dropRate + faultRate) { ops.push({ op: rng.chance(1, 2) ? "grow" : "throw" }); continue; }
    if (r < gcRate + finRate + dropRate + faultRate + 3) { const s = rng.below(NSLOT); ops.push({ op: "use", slot: s }); continue; }
    const dst = free();
    if (dst < 0) { ops.push({ op: "gc" }); continue; }
    // prefer methods whose opaque inputs are all available; otherwise construct something a method still needs
    const needs = (m) => {
      const out = [];
      if (!m.static) out.push(m.owner);
      const walkStruct = (sname) => { for (const f of spec.structs.find((x) => x.name === sname).fields) { if (f.kind === "opaque") out.push(f.ty); else if (f.kind === "struct") walkStruct(f.ty); } };
      for (const p of m.params) { if (p.kind === "opaque") out.push(p.ty); else if (p.kind === "struct") walkStruct(p.ty); }
      return out;
    };
    const have = new Set(types.filter(Boolean));
    // usually a method is only called when every opaque input can be a *different* object (one object playing two
    // inputs is kept alive by either edge, which hides a missing one); sometimes sharing is allowed on purpose
    const count = (arr) => { const c = new Map(); for (const t of arr) c.set(t, (c.get(t) || 0) + 1); return c; };
    const haveN = count(types.filter(Boolean));
    const distinctOk = (m) => { const c = count(needs(m)); for (const [t, k] of c) if ((haveN.get(t) || 0) < Math.min(k, NSLOT - 1)) return false; return true; };
    const cands = spec.methods.filter((m) => needs(m).every((t) => have.has(t)));
    if (!cands.length || rng.chance(1, 4)) {
      // something some method is still waiting for, if anything; else any opaque
      const missing = [];
      for (const m of spec.methods) for (const t of needs(m)) if (!have.has(t)) missing.push(t);
      const tname = missing.length && rng.chance(3, 4) ? rng.pick(missing) : rng.pick(spec.opaques).name;
      ops.push({ op: "mk", type: tname, dst });
      types[dst] = tname; continue;
    }
    const m = rng.pick(cands);
    if (!distinctOk(m) && rng.chance(1, 2)) {
      // not enough different objects for this method's inputs yet: make one more of a type it lacks instead
      const lack = []; for (const [t, k] of count(needs(m))) if ((haveN.get(t) || 0) < Math.min(k, NSLOT - 1)) lack.push(t);
      const tname = rng.pick(lack);
      ops.push({ op: "mk", type: tname, dst });
      types[dst] = tname; continue;
    }
    avoid = new Set([dst]);
    const args = m.params.map((p) => {
      if (p.kind === "opaque") return slotOf(p.ty);
      if (p.kind === "optopaque") return rng.below(8) < noneRate ? -1 : slotOf(p.ty);
      if (p.kind === "slice") return "tag";
      const structArg = (sname) => spec.structs.find((s) => s.name === sname).fields.map((f) => (f.kind === "opaque" ? slotOf(f.ty) : f.kind === "struct" ? structArg(f.ty) : f.opt && rng.chance(1, 6) ? "none" : "tag"));
      return structArg(p.ty);
    });
    const arm = !(rng.below(8) < noneRate);
    const isStruct = m.ret.kind === "struct" || m.ret.kind === "resstruct";
    // the most adversarial schedule for a fresh borrower: the program forgets every input right after the call,
    // the collector runs, the finalizers of whatever died run, then the borrower is used
    const dropArgs = rng.chance(1, 3);
    // of a returned struct the program often keeps only some field wrappers (bit i = keep field i; never none)
    const keepMask = isStruct ? (rng.chance(1, 2) ? 7 : 1 + rng.below(7)) : 7;
    ops.push({ op: "call", m: spec.methods.indexOf(m), self: m.static ? -1 : slotOf(m.owner), args, dst, arm, noneMask: isStruct ? rng.below(8) * (rng.below(8) < noneRate ? 1 : 0) : 0, dropArgs, keepMask });
    if (dropArgs) {
      const used = []; const walk = (a) => { if (Array.isArray(a)) a.forEach(walk); else if (typeof a === "number" && a >= 0) used.push(a); };
      walk(args); if (!m.static) used.push(ops[ops.length - 1].self);
      for (const u of used) if (u !== dst && u >= 0) types[u] = null;
      ops.push({ op: "gc" });
      const nf = 1 + rng.below(4);
      for (let k = 0; k < nf; k++) ops.push({ op: "fin", k: rng.below(8) });
      ops.push({ op: "use", slot: dst });
    }
    if (isStruct) {
      // the fields of the returned struct are spread over the free slots (the executor does the same)
      if (arm || m.ret.kind === "struct") { const sdef = spec.outs.find((s) => s.name === m.ret.ty); let k = 0; for (let si = 0; si < NSLOT && k < sdef.fields.length; si++) if (!types[si]) { if ((keepMask >> k) & 1) types[si] = sdef.fields[k].ty; k++; } }
    } else if (arm || m.ret.kind === "box" || m.ret.kind === "ref") types[dst] = m.ret.ty;
    else if (m.ret.kind === "reserr") types[dst] = m.ret.err.ty;
  }
  return { seed, bridge, run, ops };
}

/** One directed schedule per method (and per arm / kept field of its return value), executed before the random ones:
 *  every opaque input is a different object, the program forgets all of them right after the call, the collector
 *  runs and every finalizer of what died runs (twice, for chains), then everything still held is used. Any lender
 *  the bindings fail to keep alive is destroyed by then. The random schedules explore what this one does not
 *  (partial drops, delayed finalizers, shared objects, faults, longer histories). */
function directedTraces(spec, seed, bridge) {
  const out = [];
  spec.methods.forEach((m, mi) => {
    const pre = []; let next = 0; let bad = false;
    const mkObj = (ty) => {
      if (next >= NSLOT - 1) { const e = pre.find((o) => o.type === ty); if (!e) bad = true; return e ? e.dst : -1; }
      const dst = next++; pre.push({ op: "mk", type: ty, dst }); return dst;
    };
    const self = m.static ? -1 : mkObj(m.owner);
    const structArg = (sname) => spec.structs.find((x) => x.name === sname).fields.map((f) => (f.kind === "opaque" ? mkObj(f.ty) : f.kind === "struct" ? structArg(f.ty) : "tag"));
    const args = m.params.map((p) => (p.kind === "opaque" || p.kind === "optopaque" ? mkObj(p.ty) : p.kind === "slice" ? "tag" : structArg(p.ty)));
    if (bad) return;
    const dst = next;
    const isStruct = m.ret.kind === "struct" || m.ret.kind === "resstruct";
    const arms = m.ret.kind === "reserr" ? [true, false] : [true];
    const keeps = isStruct ? [7, 1, 2, 4] : [7];
    for (const arm of arms) for (const keepMask of keeps) {
      const ops = pre.map((o) => ({ ...o }));
      ops.push({ op: "call", m: mi, self, args, dst, arm, noneMask: 0, dropArgs: true, keepMask });
      for (let round = 0; round < 2; round++) { ops.push({ op: "gc" }); for (let k = 0; k < 8; k++) ops.push({ op: "fin", k: 0 }); }
      for (let sl = 0; sl < NSLOT; sl++) ops.push({ op: "use", slot: sl });
      out.push({ seed, bridge, run: -1 - out.length, ops, directed: true });
    }
  });
  return out;
}

// ---- executor ------------------------------------------------------------------------------------------
let tagCounter = 0;
function freshTag() { tagCounter++; return "Tg" + String(tagCounter).padStart(6, "0"); }
function sliceValue(tag, enc) { return enc === "u8s" || enc === "u8smut" ? Array.from(Buffer.from(tag, "utf8")) : tag; }

function required(ent, acc = new Set()) {
  for (const set of [...ent.slots, ent.storage]) for (const e of set) if (!acc.has(e)) { acc.add(e); if (e.kind === "obj") required(e, acc); }
  return acc;
}
function describe(e) { return e.kind === "obj" ? `${e.type}#${e.id}` : `buffer "${e.tag}"`; }

function checkUse(held, slot, why) {
  const h = held[slot];
  if (h.ent.destroyed) { violate("S1-premature-free", `${describe(h.ent)} was destroyed while the program still holds its wrapper (${why})`); return; }
  for (const y of required(h.ent)) {
    if (y.kind === "obj" && y.destroyed) { violate("S1-premature-free", `${describe(h.ent)} is still held and may borrow from ${describe(y)}, which has been destroyed (${why})`); return; }
    if (y.kind === "buf" && !bufIntact(y)) { violate("S1-premature-free", `${describe(h.ent)} is still held and may borrow from ${describe(y)}, which has been freed (${why})`); return; }
    if (y.kind === "buf" && y.alloc && !y.alloc.freed && ownerGone(y.alloc)) { violate("S1-lender-unreachable", `${describe(h.ent)} is still held and may borrow from ${describe(y)}, whose owner (arena / buffer object) has been collected: nothing the held value references keeps it (${why})`); return; }
  }
}

async function gcPoint(classes) {
  // canary pair: an unheld object must be gone after gc(), a held one must stay
  let heldCanary = {}; const hc = new RealWeakRef(heldCanary); const uc = (() => new RealWeakRef({}))();
  let precise = false;
  for (let attempt = 0; attempt < 3 && !precise; attempt++) { await tick(); globalThis.gc(); await tick(); precise = uc.deref() === undefined; }
  if (hc.deref() === undefined) { violate("HARNESS", "gc() collected a strongly held object"); }
  if (!precise) inc("gc_imprecise");
  heldCanary = null;
  return collectDead();
}

async function execute(spec, classes, trace) {
  wasmReset(); registriesReset(); tagCounter = 0;
  const log = W.log;
  const held = new Array(NSLOT).fill(null);
  log.push(`seed=${trace.seed} bridge=${trace.bridge} run=${trace.run} engine=gc-sim`);
  let executed = 0, reach = 0;
  const transitions = [];
  let prev = "";

  const runFinalizer = (e) => {
    try { e.reg.cb(e.held); inc("finalizers_run"); } catch (err) { inc("finalizer_threw"); }
  };
  const doCall = (fn) => { try { return { v: fn() }; } catch (err) { return { err }; } };

  // Every operation except a GC point runs in its own synchronous frame: an async function's registers survive an
  // `await`, so wrappers touched by an operation executed inline in the loop below would stay reachable from the
  // suspended frame during the next GC point and hide exactly the premature frees this simulation looks for.
  const stepSync = (op, si, line0) => {
    let line = line0;
    let did = true;
    switch (op.op) {
      case "mk": {
        if (held[op.dst]) { did = false; break; }
        const odef = spec.opaques.find((o) => o.name === op.type);
        const bufs = odef.lts.map(() => ({ kind: "buf", tag: freshTag(), enc: "DiplomatStr", alloc: null }));
        W.pendingCall = { abi: op.type + "_mk", method: { ret: null }, isMk: true, args: bufs };
        W.lastReturn = null;
        const r = doCall(() => classes[op.type].mk(...bufs.map((b) => b.tag)));
        if (r.err) { inc("call_threw"); line += " threw " + String(r.err.message).slice(0, 60); break; }
        held[op.dst] = { w: r.v, ent: W.lastReturn };
        break;
      }
      case "call": {
        const m = spec.methods[op.m];
        if (!m || held[op.dst]) { did = false; break; }
        let selfH = null;
        if (!m.static) { selfH = held[op.self]; if (!selfH || selfH.ent.type !== m.owner) { did = false; break; } }
        const jsArgs = [], entArgs = [], usedSlots = [];
        let ok = true;
        m.params.forEach((p, i) => {
          const a = op.args[i];
          if (p.kind === "opaque" || p.kind === "optopaque") {
            if (a === -1 && p.kind === "optopaque") { jsArgs.push(null); entArgs.push(null); inc("optional_argument_null"); return; }
            const h = held[a];
            if (!h || h.ent.type !== p.ty) { ok = false; return; }
            jsArgs.push(h.w); entArgs.push(h.ent);
          } else if (p.kind === "slice") {
            const b = { kind: "buf", tag: freshTag(), enc: p.enc, alloc: null };
            jsArgs.push(sliceValue(b.tag, p.enc)); entArgs.push(b);
          } else {
            const build = (sname, a) => {
              const sdef = spec.structs.find((s) => s.name === sname);
              const fieldsObj = {}, ents = [];
              sdef.fields.forEach((f, fi) => {
                const av = Array.isArray(a) ? a[fi] : -1;
                if (f.kind === "opaque") { const h = held[typeof av === "number" ? av : -1]; if (!h || h.ent.type !== f.ty) { ok = false; return; } fieldsObj[f.name] = h.w; ents.push(h.ent); usedSlots.push(av); }
                else if (f.kind === "struct") { const sub = build(f.ty, av); if (sub) { fieldsObj[f.name] = sub.js; ents.push(sub.ents); } }
                else if (f.opt && av === "none") { ents.push(null); inc("optional_slice_field_absent"); }
                else { const b = { kind: "buf", tag: freshTag(), enc: f.enc, alloc: null }; fieldsObj[f.name] = sliceValue(b.tag, f.enc); ents.push(b); if (f.opt) inc("optional_slice_field_present"); }
              });
              return ok ? { js: classes[sname].fromFields(fieldsObj), ents } : null;
            };
            const built = build(p.ty, a);
            if (built) { jsArgs.push(built.js); entArgs.push(built.ents); }
          }
        });
        if (!ok) { did = false; break; }
        // inputs are *used* by this call: they must be intact
        if (selfH) checkUse(held, op.self, "used as self");
        m.params.forEach((p, i) => { if ((p.kind === "opaque" || p.kind === "optopaque") && op.args[i] >= 0) checkUse(held, op.args[i], "passed as argument"); });
        for (const us of usedSlots) if (!W.violation && held[us]) checkUse(held, us, "passed inside a struct argument");
        if (W.violation) break;
        W.pendingCall = { abi: methodAbi(m), method: m, self: selfH ? selfH.ent : null, args: entArgs, arm: op.arm, noneMask: op.noneMask || 0 };
        W.lastReturn = null;
        const r = doCall(() => (m.special === "constructor" ? new classes[m.owner](...jsArgs) : m.special === "getter" ? selfH.w[m.name] : m.special === "iterator" ? ((it) => (it.done ? null : it.value))(selfH.w.next()) : m.static ? classes[m.owner][m.name](...jsArgs) : selfH.w[m.name](...jsArgs)));
        if (m.special) inc("special_method_" + m.special);
        if (m.elide) inc("call_of_method_with_elided_return_lifetime");
        W.pendingCall = null;
        if (r.err && W.lastReturnIsErr && W.lastReturn && r.err.cause && typeof r.err.cause === "object") {
          // Result<_, Box<E>>: the binding throws an Error whose `cause` is E's wrapper; the program keeps it
          held[op.dst] = { w: r.err.cause, ent: W.lastReturn }; inc("error_payload_wrapper_kept"); line += " -> err payload kept";
          r.err = null; r.v = null; W.lastReturn = null;
        }
        W.lastReturnIsErr = false;
        if (r.err) { inc("call_threw"); line += " threw " + String(r.err.message).slice(0, 60); break; }
        if (r.v != null && W.lastReturn && W.lastReturn.kind === "struct") {
          // a by-value struct of borrowed fields: the program keeps the field wrappers (public getters)
          const lr = W.lastReturn; let k = 0;
          for (let si = 0; si < NSLOT && k < lr.fields.length; si++) {
            if (held[si]) continue;
            const ent = lr.fields[k]; const fw = r.v[lr.def.fields[k].name]; const keep = ((op.keepMask ?? 7) >> k) & 1; k++;
            if (!!ent !== !!fw) violate("HARNESS", "struct field presence differs from what the model wrote");
            else if (ent && fw && keep) held[si] = { w: fw, ent };
            else if (ent && fw) { inc("struct_field_wrapper_not_kept"); si--; }
          }
        } else if (r.v != null && W.lastReturn) held[op.dst] = { w: r.v, ent: W.lastReturn };
        else if (!held[op.dst]) line += " -> null";
        if (op.dropArgs) {
          const keep = new Set(); // slots that received (part of) the result
          if (W.lastReturn && W.lastReturn.kind === "struct") { for (let si = 0; si < NSLOT; si++) if (held[si] && W.lastReturn.fields.includes(held[si].ent)) keep.add(si); } else keep.add(op.dst);
          const used = []; const walk = (a) => { if (Array.isArray(a)) a.forEach(walk); else if (typeof a === "number" && a >= 0) used.push(a); };
          walk(op.args); if (op.self >= 0) used.push(op.self);
          for (const u of used) if (!keep.has(u)) held[u] = null;
          inc("inputs_dropped_right_after_call");
        }
        break;
      }
      case "drop": if (!held[op.slot]) { did = false; break; } held[op.slot] = null; break;
      case "use": if (!held[op.slot]) { did = false; break; } checkUse(held, op.slot, "used"); if (!W.violation) { const r = doCall(() => held[op.slot].w.id()); if (r.err) inc("call_threw"); } break;
      case "grow": W.armGrow = true; break;
      case "throw": W.armThrow = true; break;
      case "fin": { if (!pending.length) { did = false; inc("finalizer_delayed_none_pending"); break; } const e = pending.splice(op.k % pending.length, 1)[0]; runFinalizer(e); break; }
      default: did = false;
    }
    return { did, line };
  };

  for (let si = 0; si < trace.ops.length && !W.violation; si++) {
    const op = trace.ops[si]; W.step = si;
    let line = `${si} ${JSON.stringify(op)}`;
    let did = true;
    if (op.op === "gc") {
        const n = await gcPoint(classes); inc("gc_points"); line += ` dead=${n} pending=${pending.length}`;
      // reach probe: something a held value may borrow from is no longer held by the program itself
      const direct = new Set(held.filter(Boolean).map((h) => h.ent));
      let hit = false;
      for (const h of held) if (h) for (const y of required(h.ent)) if (y.kind === "buf" || !direct.has(y)) hit = true;
      if (hit) { reach++; inc("probe_lender_unreachable_while_borrower_held"); }
    } else {
      const r = stepSync(op, si, line);
      did = r.did; line = r.line;
    }
    if (!did) { inc("ops_skipped"); log.push(line + " skipped"); continue; }
    executed++; inc("ops_executed");
    const tk = op.op + (op.op === "call" ? ":" + spec.methods[op.m].ret.kind : "");
    transitions.push(prev + ">" + tk); prev = tk;
    log.push(line + ` | objs=${W.objs.size} destroyed=${[...W.objs.values()].filter((o) => o.destroyed).length} bufs=${W.allocs.size}`);
  }
  if (!W.violation) {
    // final: one more GC point, drain every pending finalizer in a trace-independent (registration) order,
    // then every value the program still holds must still be usable
    W.step = trace.ops.length;
    await gcPoint(classes); inc("gc_points");
    while (pending.length) runFinalizer(pending.shift());
    for (let s = 0; s < NSLOT && !W.violation; s++) if (held[s]) checkUse(held, s, "final use");
    for (let s = 0; s < NSLOT && !W.violation; s++) if (held[s]) { const r = doCall(() => held[s].w.id()); if (r.err) inc("call_threw"); }
    // release everything, collect, drain: only exactly-once violations can show up here
    for (let s = 0; s < NSLOT; s++) held[s] = null;
    if (!W.violation) { await gcPoint(classes); while (pending.length) runFinalizer(pending.shift()); await gcPoint(classes); while (pending.length) runFinalizer(pending.shift()); }
    log.push(`end objs=${W.objs.size} destroyed=${[...W.objs.values()].filter((o) => o.destroyed).length}`);
  }
  if (W.violation) log.push(`VIOLATION oracle=${W.violation.oracle} step=${W.violation.step} ${W.violation.detail}`);
  return { log: log.join("\n") + "\n", violation: W.violation, transitions, nontrivial: reach > 0, executed };
}

// ---- minimisation (ddmin over operations) ---------------------------------------------------------------
async function minimise(spec, classes, trace, oracle) {
  const fails = async (ops) => { const o = await execute(spec, classes, { ...trace, ops }); return o.violation && o.violation.oracle === oracle; };
  let cur = trace.ops.slice(), n = 2, budget = 200;
  while (cur.length >= 2 && budget > 0) {
    const chunk = Math.ceil(cur.length / n); let reduced = false;
    for (let i = 0; i * chunk < cur.length && budget > 0; i++) {
      const cand = cur.slice(0, i * chunk).concat(cur.slice(i * chunk + chunk)); budget--;
      if (await fails(cand)) { cur = cand; n = Math.max(n - 1, 2); reduced = true; break; }
    }
    if (!reduced) { if (n >= cur.length) break; n = Math.min(n * 2, cur.length); }
  }
  return { ...trace, ops: cur };
}

// ---- main ------------------------------------------------------------------------------------------------
async function main() {
  const args = process.argv.slice(2); const kv = {};
  for (let i = 0; i < args.length; i += 2) kv[args[i].replace(/^--/, "")] = args[i + 1];
  if (typeof globalThis.gc !== "function") { console.error("HARNESS-ERROR node must run with --expose-gc"); process.exit(2); }
  const dir = kv.dir;
  const spec = JSON.parse(fs.readFileSync(path.join(dir, "desc.json"), "utf8"));
  W.spec = spec; wasmReset();
  const classes = {};
  for (const t of [...spec.opaques, ...spec.structs, ...(spec.outs || [])]) {
    const mod = await import(pathToFileURL(path.join(dir, "api", t.name + ".mjs")).href);
    classes[t.name] = mod[t.name];
    if (!classes[t.name]) { console.error("HARNESS-ERROR generated module has no class " + t.name); process.exit(2); }
  }
  if (W.violation) { console.error("HARNESS-ERROR while importing generated modules: " + W.violation.detail); process.exit(2); }
  try { installOwnerTracking(await import(pathToFileURL(path.join(dir, "api", "diplomat-runtime.mjs")).href)); } catch (e) { inc("owner_tracking_unavailable_import"); }
  if (kv.replay) {
    const rep = JSON.parse(fs.readFileSync(kv.replay, "utf8"));
    const o = await execute(spec, classes, rep.trace);
    process.stdout.write(o.log);
    if (o.violation) { console.log(`VIOLATION property=${PROP} replay=${kv.replay} oracle=${o.violation.oracle} engine=gc-sim step=${o.violation.step} detail=${JSON.stringify(o.violation.detail)}`); process.exit(1); }
    console.log("REPLAY-OK no violation"); process.exit(0);
  }
  const seed = Number(kv.seed ?? 20261002), from = Number(kv.from ?? 0), to = Number(kv.to ?? 10), bridge = Number(kv.bridge ?? spec.idx);
  // (bridge -1 is the fixed catalogue; its traces are derived like any other bridge's)
  const traces = new Set(), nontrivial = new Set(), transitions = new Set(); let digest = 0n, runs = 0; const samples = [];
  let code = 0, oracle = "";
  const directed = from === 0 ? directedTraces(spec, seed, bridge) : [];
  for (let run = from - directed.length; run < to; run++) {
    const t = run < from ? directed[run - (from - directed.length)] : genTrace(spec, seed, bridge, run);
    if (run < from) inc("directed_schedules_run");
    const o = await execute(spec, classes, t); runs++;
    const th = fnv1a64hex(JSON.stringify(t.ops)); traces.add(th);
    if (o.nontrivial) { nontrivial.add(th); if (samples.length < 1) samples.push(t); }
    for (const tr of o.transitions) transitions.add(tr);
    digest = (digest + BigInt("0x" + fnv1a64hex(o.log)) + BigInt(run + 1000000) * 0x9e3779b97f4a7c15n) & 0xffffffffffffffffn;
    if (kv.dumplogs) fs.appendFileSync(kv.dumplogs, `${run} ${fnv1a64hex(o.log)}\n`);
    if (o.violation) {
      if (o.violation.oracle === "HARNESS") { console.error("HARNESS-ERROR " + o.violation.detail); process.exit(2); }
      const m = await minimise(spec, classes, t, o.violation.oracle);
      const mo = await execute(spec, classes, m);
      console.log("-----BEGIN REPLAY-----\n" + JSON.stringify({ property: PROP, oracle: o.violation.oracle, engine: "gc-sim", abi: kv.abi ?? "", seed, bridge, run: t.run, trace: m, log: mo.log.split("\n"), original_ops: t.ops.length }, null, 1) + "\n-----END REPLAY-----");
      console.log(`VIOLATION property=${PROP} replay=- oracle=${o.violation.oracle} engine=gc-sim seed=${seed} bridge=${bridge} run=${t.run} step=${o.violation.step} detail=${JSON.stringify(o.violation.detail)}`);
      code = 1; oracle = o.violation.oracle; break;
    }
  }
  console.log("STATS " + JSON.stringify({ engine: "gc-sim", seed, bridge, runs, distinct_traces: traces.size, distinct_nontrivial: nontrivial.size, distinct_transitions: transitions.size, log_digest: digest.toString(16), violations: code, oracle, counters: W.counters, samples }));
  process.exit(code);
}
main().catch((e) => { console.error("HARNESS-ERROR " + (e && e.stack ? e.stack : e)); process.exit(2); });
