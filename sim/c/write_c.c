// write_c — the C caller's side of DiplomatWrite (property C12), compiled against the headers
// `diplomat-tool c` generates for sim/rs/vbridge (DiplomatWrite struct, diplomat_simple_write,
// diplomat_buffer_write_*, Tok_describe_n, ...) and linked with the macro-built staticlib,
// under AddressSanitizer. One trace = (writer kind, sizes, the owner's grow outcomes, calls).
//
//   write_c run --seed S --from A --to B        write_c replay FILE
//
// exit 0 ok / 1 violation (VIOLATION line + REPLAY block) / 2 harness error

#include <stdbool.h>
#include <stdint.h>
#include <stdio.h>
#include <stdlib.h>
#include <string.h>

#include "Tok.h"
#include "diplomat_runtime.h"

// ---- PRNG (same xoshiro128** as everywhere else) ----------------------------------------------------
static uint32_t rs[4];
static uint32_t splitmix32(uint32_t* st) { *st += 0x9e3779b9u; uint32_t z = *st; z ^= z >> 16; z *= 0x21f0aaadu; z ^= z >> 15; z *= 0x735a2d97u; z ^= z >> 15; return z; }
static uint32_t rotl(uint32_t x, int k) { return (x << k) | (x >> (32 - k)); }
static uint32_t fnv1a32(const char* s) { uint32_t h = 0x811c9dc5u; for (; *s; s++) { h ^= (unsigned char)*s; h *= 0x01000193u; } return h; }
static void seed_rng(uint32_t seed) { uint32_t st = seed; for (int i = 0; i < 4; i++) rs[i] = splitmix32(&st); if (!(rs[0] | rs[1] | rs[2] | rs[3])) rs[0] = 1; }
static void derive(uint64_t seed, const char* engine, uint64_t run) {
  uint32_t lo = (uint32_t)seed, hi = (uint32_t)(seed >> 32), rlo = (uint32_t)run, rhi = (uint32_t)(run >> 32);
  uint32_t st = lo ^ fnv1a32(engine); uint32_t a = splitmix32(&st);
  uint32_t st2 = a ^ rotl(hi, 13) ^ rlo; uint32_t b = splitmix32(&st2);
  uint32_t st3 = b ^ rotl(rhi, 7); seed_rng(splitmix32(&st3));
}
static uint32_t next_u32(void) { uint32_t r = rotl(rs[1] * 5, 7) * 9, t = rs[1] << 9; rs[2] ^= rs[0]; rs[3] ^= rs[1]; rs[1] ^= rs[2]; rs[0] ^= rs[3]; rs[2] ^= t; rs[3] = rotl(rs[3], 11); return r; }
static uint32_t below(uint32_t n) { return next_u32() % n; }

// ---- trace --------------------------------------------------------------------------------------------
enum { KIND_FIXED = 0, KIND_OWNED = 1, KIND_CALLER = 2 };
typedef struct { int kind; unsigned size; unsigned n1, n2; int fail_at; unsigned slack; } Trace;  // two successive describe_n calls

static void gen(uint64_t seed, uint64_t run, Trace* t) {
  derive(seed, "write-c", run);
  t->kind = (int)below(3);
  static const unsigned sizes[] = {1, 2, 3, 4, 5, 7, 8, 16, 17, 31, 64};
  t->size = sizes[below(11)];
  t->n1 = below(12); t->n2 = below(2) ? below(8) : 0;
  t->fail_at = below(3) == 0 ? (int)below(4) : -1;
  t->slack = below(3) == 0 ? 1 + below(9) : 0;
}

// ---- the caller-supplied owner --------------------------------------------------------------------------
typedef struct { int grows, fail_at, flushes; unsigned slack; size_t len_at_flush; } Owner;
static void owner_flush(DiplomatWrite* w) { Owner* o = w->context; o->flushes++; o->len_at_flush = w->len; }
static bool owner_grow(DiplomatWrite* w, size_t req) {
  Owner* o = w->context;
  int k = o->grows++;
  if (k == o->fail_at) return false;
  size_t ncap = req + o->slack;
  char* nb = malloc(ncap);  // exactly sized: ASan sees any overrun
  memcpy(nb, w->buf, w->len);
  free(w->buf);
  w->buf = nb; w->cap = ncap;
  return true;
}

// what describe_n(n) writes: n times one ASCII byte then the two bytes of U+00E9
static size_t chunks(unsigned n, unsigned char out[][2], size_t* lens) { size_t k = 0; for (unsigned i = 0; i < n; i++) { out[k][0] = (unsigned char)('a' + i % 26); lens[k++] = 1; out[k][0] = 0xc3; out[k][1] = 0xa9; lens[k++] = 2; } return k; }

static char msg[512];
static const char* oracle;
static int fail(const char* o, const char* fmt, unsigned long a, unsigned long b) { oracle = o; snprintf(msg, sizeof msg, fmt, a, b); return 1; }

// model: bytes accepted given a capacity rule; returns expected length, sets *failed
typedef struct { unsigned char bytes[256]; size_t len; bool failed; } Model;
static void model_write(Model* m, unsigned n, size_t* cap, Owner* owner_model /* NULL: capacity fixed */, int* grows, int fail_at, unsigned slack) {
  unsigned char c[64][2]; size_t l[64]; size_t k = chunks(n, c, l);
  for (size_t i = 0; i < k; i++) {
    if (m->failed) continue;
    if (m->len + l[i] > *cap) {
      if (!owner_model) { m->failed = true; continue; }
      int g = (*grows)++;
      if (g == fail_at) { m->failed = true; continue; }
      *cap = m->len + l[i] + slack;
    }
    memcpy(m->bytes + m->len, c[i], l[i]); m->len += l[i];
  }
}

static int execute(const Trace* t, char* log, size_t logsz) {
  Tok* tok = Tok_new();
  Model m; memset(&m, 0, sizeof m);
  int rc = 0;
  snprintf(log, logsz, "kind=%d size=%u n1=%u n2=%u fail_at=%d slack=%u", t->kind, t->size, t->n1, t->n2, t->fail_at, t->slack);
  if (t->kind == KIND_FIXED) {
    char* buf = malloc(t->size);  // exactly the caller's buffer
    memset(buf, 0xA5, t->size);
    DiplomatWrite w = diplomat_simple_write(buf, t->size);
    size_t cap = t->size - 1; int g = 0;
    Tok_describe_n(tok, t->n1, &w);
    model_write(&m, t->n1, &cap, NULL, &g, -1, 0);
    if (t->n2) { Tok_describe_n(tok, t->n2, &w); model_write(&m, t->n2, &cap, NULL, &g, -1, 0); }
    if (w.len != m.len) rc = fail("I1-len", "fixed writer: len=%lu expected %lu", w.len, m.len);
    else if (memcmp(buf, m.bytes, m.len) != 0) rc = fail("I1-bytes", "fixed writer: content differs (len %lu)%lu", m.len, 0);
    else if (w.grow_failed != m.failed) rc = fail("I2-flag", "fixed writer: grow_failed=%lu expected %lu", w.grow_failed, m.failed);
    else if (w.len + 1 > t->size || buf[w.len] != 0) rc = fail("I7-nul", "fixed writer: no NUL at buf[len] (len=%lu, size=%lu)", w.len, t->size);
    free(buf);
  } else if (t->kind == KIND_OWNED) {
    DiplomatWrite* w = diplomat_buffer_write_create(t->size % 9);
    size_t cap = (size_t)-1; int g = 0;
    Tok_describe_n(tok, t->n1, w);
    model_write(&m, t->n1, &cap, NULL, &g, -1, 0);
    if (t->n2) { Tok_describe_n(tok, t->n2, w); model_write(&m, t->n2, &cap, NULL, &g, -1, 0); }
    char* b = diplomat_buffer_write_get_bytes(w); size_t len = diplomat_buffer_write_len(w);
    if (len != m.len) rc = fail("I6-accessor", "Rust-owned writer: len=%lu expected %lu", len, m.len);
    else if (!b || memcmp(b, m.bytes, m.len) != 0) rc = fail("I1-bytes", "Rust-owned writer: content differs (len %lu)%lu", m.len, 0);
    diplomat_buffer_write_destroy(w);
  } else {
    Owner o = {0, t->fail_at, 0, t->slack, 0};
    DiplomatWrite w; memset(&w, 0, sizeof w);
    w.context = &o; w.buf = malloc(t->size); w.len = 0; w.cap = t->size; w.grow_failed = false; w.flush = owner_flush; w.grow = owner_grow;
    size_t cap = t->size; int g = 0;
    Tok_describe_n(tok, t->n1, &w);
    model_write(&m, t->n1, &cap, &o, &g, t->fail_at, t->slack);
    int expected_flushes = 1;
    if (t->n2) { Tok_describe_n(tok, t->n2, &w); model_write(&m, t->n2, &cap, &o, &g, t->fail_at, t->slack); expected_flushes = 2; }
    if (w.len != m.len) rc = fail("I1-len", "caller-supplied writer: len=%lu expected %lu", w.len, m.len);
    else if (memcmp(w.buf, m.bytes, m.len) != 0) rc = fail("I1-bytes", "caller-supplied writer: content differs (len %lu)%lu", m.len, 0);
    else if (w.grow_failed != m.failed) rc = fail("I2-flag", "caller-supplied writer: grow_failed=%lu expected %lu", w.grow_failed, m.failed);
    else if (o.flushes != expected_flushes) rc = fail("I8-flush-count", "caller-supplied writer: flushed %lu times, expected %lu", o.flushes, expected_flushes);
    else if (o.len_at_flush != w.len) rc = fail("I8-flush-order", "flush saw len=%lu, final len=%lu", o.len_at_flush, w.len);
    else if (o.grows != g) rc = fail("I5-grow-calls", "grow was called %lu times, the model expects %lu", o.grows, g);
    free(w.buf);
  }
  Tok_destroy(tok);
  return rc;
}

static void print_trace(FILE* f, uint64_t seed, uint64_t run, const Trace* t) {
  fprintf(f, "# c-write-trace v1 (C12)\nseed %llu run %llu\nkind %d\nsize %u\nn1 %u\nn2 %u\nfail_at %d\nslack %u\n", (unsigned long long)seed, (unsigned long long)run, t->kind, t->size, t->n1, t->n2, t->fail_at, t->slack);
}

int main(int argc, char** argv) {
  if (argc < 2) return 2;
  uint64_t seed = 20261002, from = 0, to = 1000; const char* file = NULL;
  for (int i = 2; i < argc; i++) {
    if (!strcmp(argv[i], "--seed") && i + 1 < argc) seed = strtoull(argv[++i], 0, 10);
    else if (!strcmp(argv[i], "--from") && i + 1 < argc) from = strtoull(argv[++i], 0, 10);
    else if (!strcmp(argv[i], "--to") && i + 1 < argc) to = strtoull(argv[++i], 0, 10);
    else file = argv[i];
  }
  char log[256];
  if (!strcmp(argv[1], "replay")) {
    if (!file) return 2;
    FILE* f = fopen(file, "r"); if (!f) return 2;
    Trace t = {0}; char line[256]; unsigned long long s = 0, r = 0;
    while (fgets(line, sizeof line, f)) {
      if (line[0] == '#') continue;
      sscanf(line, "seed %llu run %llu", &s, &r); sscanf(line, "kind %d", &t.kind); sscanf(line, "size %u", &t.size); sscanf(line, "n1 %u", &t.n1);
      sscanf(line, "n2 %u", &t.n2); sscanf(line, "fail_at %d", &t.fail_at); sscanf(line, "slack %u", &t.slack);
    }
    fclose(f);
    if (t.size == 0) return 2;
    int rc = execute(&t, log, sizeof log);
    printf("%s\n", log);
    if (rc) { printf("VIOLATION property=C12 replay=%s oracle=%s engine=c-write detail=\"%s\"\n", file, oracle, msg); return 1; }
    printf("REPLAY-OK no violation\n"); return 0;
  }
  uint64_t digest = 0, runs = 0; unsigned long kinds[3] = {0, 0, 0}, failing = 0, second = 0;
  for (uint64_t run = from; run < to; run++) {
    Trace t; gen(seed, run, &t);
    int rc = execute(&t, log, sizeof log); runs++; kinds[t.kind]++; if (t.fail_at >= 0) failing++; if (t.n2) second++;
    for (const char* p = log; *p; p++) { digest ^= (unsigned char)*p; digest *= 0x100000001b3ull; }
    if (rc) {
      // shrink the numbers while the same oracle fails
      const char* orc = oracle; Trace m = t; int progress = 1;
      while (progress) {
        progress = 0; Trace c;
        c = m; if (c.n2) { c.n2 = 0; if (execute(&c, log, sizeof log) && oracle == orc) { m = c; progress = 1; continue; } }
        c = m; if (c.n1) { c.n1--; if (execute(&c, log, sizeof log) && oracle == orc) { m = c; progress = 1; continue; } }
        c = m; if (c.slack) { c.slack = 0; if (execute(&c, log, sizeof log) && oracle == orc) { m = c; progress = 1; continue; } }
        c = m; if (c.size > 1) { c.size--; if (execute(&c, log, sizeof log) && oracle == orc) { m = c; progress = 1; continue; } }
      }
      execute(&m, log, sizeof log);
      printf("-----BEGIN REPLAY-----\n"); print_trace(stdout, seed, run, &m); printf("# property C12\n# oracle %s\n# log: %s\n# %s\n-----END REPLAY-----\n", oracle, log, msg);
      printf("VIOLATION property=C12 replay=- oracle=%s engine=c-write seed=%llu run=%llu detail=\"%s\"\n", oracle, (unsigned long long)seed, (unsigned long long)run, msg);
      printf("STATS {\"engine\":\"c-write\",\"seed\":%llu,\"runs\":%llu,\"violations\":1,\"log_digest\":\"%llx\",\"counters\":{}}\n", (unsigned long long)seed, (unsigned long long)runs, (unsigned long long)digest);
      fflush(stdout); _Exit(1);
    }
  }
  printf("STATS {\"engine\":\"c-write\",\"seed\":%llu,\"runs\":%llu,\"violations\":0,\"log_digest\":\"%llx\",\"counters\":{\"runs_fixed_buffer\":%lu,\"runs_rust_owned\":%lu,\"runs_caller_supplied\":%lu,\"fault_grow_fail_armed\":%lu,\"second_call_on_same_writer\":%lu}}\n",
         (unsigned long long)seed, (unsigned long long)runs, (unsigned long long)digest, kinds[0], kinds[1], kinds[2], failing, second);
  return 0;
}
