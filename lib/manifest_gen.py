#!/usr/bin/env python3
"""Regenerates /verif/MANIFEST.json from the tables below (keeps it valid at all times)."""
import json
import os
import sys

VERIF = os.path.dirname(os.path.dirname(os.path.abspath(__file__)))

NA = {
    "C01": "ABI agreement between the macro's extern \"C\" layer and the C header is a pure function of (bridge module, argument bytes): no schedule, clock, fault or multi-step history for a simulator to own; deciding it is differential/translation validation, a different technique (DESIGN.md §7).",
    "C02": "Value preservation through the generated C++ wrappers is a pure function of (module, value, -std); UTF-8 rejection is a predicate on one input. Nothing to schedule or fault (DESIGN.md §7).",
    "C05": "Acceptance/rejection by the lowering gate is a pure decision procedure on (module, backend feature profile); no nondeterminism, faults or histories (DESIGN.md §7).",
    "C06": "Equality of two symbol sets computed from the same source text; pure (DESIGN.md §7).",
    "C07": "Textual/ABI agreement of Dart and Kotlin declarations with the C ABI is pure, and neither toolchain is installed (DESIGN.md §7).",
    "C08": "Struct offsets, padding and argument flattening are a pure function of (struct definition, js.abi); gc-sim's memory.grow fault touches stale views but cannot decide layout equality (DESIGN.md §7).",
    "C09": "Well-formedness of generated files under rustc/gcc/g++/node --check is a pure function of the module (DESIGN.md §7).",
    "C10": "The Option/Result wire encoding is a pure function of (type, value) (DESIGN.md §7).",
    "C11": "Enum discriminant tables per backend vs rustc: pure (DESIGN.md §7).",
    "C13": "Truth table of #[diplomat::attr(cfg, ...)] per backend x formula x placement: pure (DESIGN.md §7).",
    "C15": "\"No panic for any accepted module x backend x config\" is totality of a pure function; finding crashing inputs is fuzzing, not simulation (DESIGN.md §7).",
    "C16": "Slice/str view round-trips and diplomat_is_str are pure functions of (pointer, length, bytes) (DESIGN.md §7).",
    "C17": "Precedence of three configuration sources is a pure function of the three assignments (DESIGN.md §7).",
}

PENDING = {}

CHECKS = {
    "C04": {
        "engine": "gc-sim",
        "technique": "deterministic simulation of garbage-collection / finalizer schedules (simulated FinalizationRegistry, model wasm, V8 reachability) over tool-generated JS bindings for seeded bridges, with memory.grow and export-throw faults",
        "level_claimed": {
            "category": "exploration",
            "text": "Scoped claim: for the JavaScript backend (legacy and spec ABI) the lifetime edges the real tool emits keep alive everything a returned value may borrow from, under every sampled GC schedule. Bridges are generated from VERIF_SEED inside C04's grammar (incl. elided return lifetimes where Rust's elision rules apply; next to a fixed catalogue of delicate signatures and 'negative' bridges that leave a definition-implied bound implicit), the real diplomat-tool generates the .mjs, a model wasm plays the most-borrowing Rust body each signature admits (computed independently of Diplomat and validated on every run against feature_tests' annotated ground truth), FinalizationRegistry is replaced by a simulated one so that the trace alone decides where GC points fall and which dead registration is finalized when; V8 decides reachability. Per method one directed schedule (distinct inputs, all dropped, GC, all finalizers, use) precedes the random ones. Safety oracles at every use of a held wrapper (no lender destroyed/freed, and the arena / buffer object owning a lender buffer not collected), at every export call (no dangling argument) and at every destroy/free (exactly once; a by-reference return that lives inside a lender is never destroyed). Not decided: the upper bound of 'exactly' (over-retention is allowed by the property for backends) and the Dart/Kotlin/nanobind emitters (cannot be executed here).",
            "design_ref": "DESIGN.md §4",
        },
        "level_note": "Trusted: V8's gc() precision (canary-monitored; imprecision can only hide a premature free), the independent outlives model, the bridge generator staying inside the accepted grammar (a method the lowering gate rejects is left out and its bridge regenerated; bridges still rejected are skipped and counted). The wasm side is a model because no wasm32 target is installed.",
    },
    "C14": {
        "engine": "proc-sim",
        "technique": "deterministic simulation of the diplomat-tool process environment (entropy/clock/pid/heap/cwd/env behind an LD_PRELOAD shim, ASLR off) with seeded edit histories; byte comparison of output trees",
        "level_claimed": {
            "category": "exploration",
            "text": "Every ambient input of a diplomat-tool process (HashMap seeds via getrandom, clocks, pid, hostname, heap layout, cwd, path spelling, environment, stale output directory) is drawn from the trace and injected through seams, so one trace is one exactly repeatable process execution. Seeded histories of edits (no-op, permute modules, permute type declarations, insert/remove an unreferenced type (also one that itself uses existing types, reuses their member names, is disabled in one backend, or is a same-named type in another module / namespace), insert/remove non-bridge items incl. same-named types) are applied to feature_tests, example, the verification bridge, a corpus in which every construct is used exactly once, and two generated bridges; after each edit all 14 backend configurations (two ABIs of JS, settings arriving from two sources, two with -u documentation base URLs whose crate keys prefix one another) are regenerated under a fresh ambient draw and compared byte-for-byte with the reference state (D1 identical, D2 identical, D3 other types' files identical and removal restores the tree, D4 identical). Violations are minimised to the needed edits and the responsible ambient dimension. Sampling, not proof.",
            "design_ref": "DESIGN.md §6",
        },
        "level_note": "Trusted: the shim reaches the sources it claims (measured per run: getrandom call count, distinct HashMap listing orders; clock/pid/hostname are simulated but not consulted by the tool on this tree). Aggregate files (index.mjs, index.d.ts, lib.g.dart, <lib>_ext.cpp) are exempt from D3 by name. I/O errors are not simulated.",
    },
    "C03": {
        "engine": "own-sim",
        "technique": "deterministic simulation of ownership histories across the FFI boundary against a ledger reference model; seeded schedules + fault arms, executed natively, under Miri and (C++ layer) under ASan",
        "level_claimed": {
            "category": "exploration",
            "text": "The foreign caller is simulated: seeded histories of create / borrow / convert / clone / bitwise-move / call / destroy operations, with injected unusual-but-legal events (Err/None arms, NULL+0 and foreign-allocated owned slices, zero-length and ZST slices, callbacks without destructor or never called, callback cookies that are table handles (the first one 0, a null data word) instead of pointers, panicking Clone, stored callbacks replaced or dropped with their owner) are executed against (L1) the runtime's FFI-safe owning types and (L2) the extern \"C\" API the real proc macro generates for an all-shapes bridge. A ledger model (live set of tracked heap tokens) is compared after every operation (exactly-once, no premature drop, no leak, value integrity); Miri checks memory safety of shape-distinct traces. Sampling, not proof.",
            "design_ref": "DESIGN.md §3",
        },
        "level_note": "Trusted: the ledger and tracked tokens (harness code), rustc/Miri semantics, the caller model obeying the documented FFI contract. One hand-written bridge stands for 'all programs'. Allocation failure (abort) and exceptions through Rust frames are out of scope.",
    },
    "C12": {
        "engine": "write-sim",
        "technique": "deterministic simulation of the buffer owner with injected grow() outcomes: exhaustive fault-sequence enumeration on small spaces + seeded sampling + Miri",
        "level_claimed": {
            "category": "fault_enumeration",
            "text": "The foreign buffer owner (grow/flush callbacks, allocation, relocation) is simulated; every grow() outcome is a fault decision taken from the trace. For operation sequences over chunks of {0,1,2,3,5} bytes and a single-character write_char, up to length 5 (6 thorough), capacities 1..8 and fixed buffers 1..12 the complete tree of grow-outcome vectors actually requested by the code is enumerated; beyond that swarm-configured traces are sampled from VERIF_SEED. After every operation a reference model (bytes, cap, sticky flag) driven by the observed grow calls is compared with the real struct; overruns are caught by canaries/never-written filler/poisoned released buffers natively and by Miri on exact-size allocations. A clean batch is evidence over the explored space, not a proof.",
            "design_ref": "DESIGN.md §5",
        },
        "level_note": "Trusted: the simulator's owner is honest (grow gives >= requested or fails without side effects); rustc/Miri semantics; the #[repr(C)] mirror of DiplomatWrite is self-tested against diplomat_simple_write at start-up. Not covered: allocation failure inside the Rust-owned writer (aborts).",
    },
}

ENGINES = [
    {"name": "gc-sim", "path": "sim/js (gen.mjs, gcsim.mjs, validate_model.mjs) + lib/c04.py", "serves_properties": ["C04"], "kind_free_text": "GC-schedule simulator for generated JS bindings: bridge generator, independent outlives model, simulated FinalizationRegistry, model wasm, ddmin"},
    {"name": "proc-sim", "path": "lib/c14.py + sim/proc/shim.c + sim/rs/permute", "serves_properties": ["C14"], "kind_free_text": "process-environment simulator for diplomat-tool: preload shim, ASLR-off launcher, syn-based edit-history rewriter, tree comparator with minimiser"},
    {"name": "own-sim", "path": "sim/rs/own-sim", "serves_properties": ["C03", "C12"], "kind_free_text": "trace-driven ownership simulator: L1 runtime types, L2 macro-generated extern C API of sim/rs/vbridge (Rust, native + Miri)"},
    {"name": "write-sim", "path": "sim/rs/write-sim", "serves_properties": ["C12"], "kind_free_text": "trace-driven simulator of the DiplomatWrite buffer owner (Rust, native + Miri)"},
]


def main():
    checks = []
    for pid in sorted(CHECKS):
        c = CHECKS[pid]
        checks.append({
            "property_id": pid,
            "quick_cmd": "./check %s --tier quick" % pid,
            "thorough_cmd": "./check %s --tier thorough" % pid,
            "evidence_file": "/verif/evidence/%s.json" % pid,
            "replay_cmd_template": "./check replay {path}",
            "engine": c["engine"],
            "level_claimed": c["level_claimed"],
            "level_note": c["level_note"],
            "technique": c["technique"],
        })
    na = []
    for pid in sorted(set(NA) | set(PENDING)):
        if pid in CHECKS:
            continue
        na.append({"property_id": pid, "reason": NA.get(pid) or PENDING[pid]})
    doc = {
        "version": 1,
        "setup_cmd": "./check setup",
        "hooks": {
            "guard": "rust_diplomat_diplomat_verif",
            "enable": "no hooks exist: every seam used (grow/flush function pointers, the FFI surface, global FinalizationRegistry/WeakRef and the diplomat-wasm.mjs sibling module, libc getrandom/clock symbols) is already present in the shipped code",
            "baseline_off_cmd": "cd /repo && cargo test --workspace --no-fail-fast --offline",
            "source_commits": [],
            "add_only": True,
        },
        "engines": [e for e in ENGINES if any(p in CHECKS for p in e["serves_properties"])],
        "checks": checks,
        "not_applicable": na,
        "notes": "Technique family: deterministic simulation with fault injection. See DESIGN.md; KNOWN_FINDINGS.txt lists repaired/recorded defects.",
    }
    with open(os.path.join(VERIF, "MANIFEST.json"), "w") as f:
        json.dump(doc, f, indent=1)
        f.write("\n")
    try:
        import jsonschema
        jsonschema.validate(doc, json.load(open("/root/.vp/MANIFEST.schema.json")))
        print("MANIFEST.json valid")
    except ImportError:
        print("MANIFEST.json written (jsonschema not importable here)")


if __name__ == "__main__":
    main()
