"""./check selfcheck [engine...] — determinism of the simulators themselves (DESIGN.md §2.4).

Every engine is executed several times on the same seeds, in separate processes, at two worker counts, and the
event-log digests are compared; the Node engine additionally per run (excluding runs in which V8's collector was
observed to be imprecise), proc-sim under two PYTHONHASHSEED values in fresh interpreters. Any difference is a
harness error (exit 2): a check that does not replay cannot be trusted. Writes /verif/reports/selfcheck.json.
"""
import json
import os
import shutil
import subprocess
import sys
import time
from concurrent.futures import ThreadPoolExecutor

import common
from common import NCPU, HarnessError, cargo_build, log, parse_stats, run_capture

ENGINES = ["write-sim", "own-l1", "own-l2", "write-l2", "cpp", "gc-sim", "proc-sim"]


def rust_engine(binary, sub, seeds, n):
    diffs, execs = [], 0

    def digest(seed, threads):
        rc, out, err = run_capture([binary] + sub + ["run", "--seed", str(seed), "--from", "0", "--to", str(n), "--threads", str(threads), "--out", "-"])
        st, _ = parse_stats(out)
        if rc != 0 or st is None:
            raise HarnessError("%s run failed during selfcheck (rc=%s)" % (sub, rc))
        return st["log_digest"], st["distinct_traces"], json.dumps(st["counters"], sort_keys=True)
    with ThreadPoolExecutor(max_workers=4) as ex:
        for seed in seeds:
            rs = list(ex.map(lambda t: digest(seed, t), [1, NCPU, 1, NCPU]))
            execs += 4
            if len(set(rs)) != 1:
                diffs.append({"seed": seed, "results": rs})
    return {"seeds": len(seeds), "runs_per_seed": n, "executions": execs, "worker_counts": [1, NCPU], "differences": diffs}


def cpp_engine(seeds, n):
    import c03_cpp
    exes = c03_cpp.build()
    diffs, execs = [], 0
    for prop in ("C03", "C12"):
        for seed in seeds:
            rs = []
            for std in ("17", "20", "17"):
                rc, out, err = run_capture([exes[std], "run", "--prop", prop, "--seed", str(seed), "--from", "0", "--to", str(n), "--known", "cpp-strs-layout"], env=c03_cpp.SAN_ENV)
                st, _ = parse_stats(out)
                if rc != 0 or st is None:
                    raise HarnessError("C++ driver failed during selfcheck (rc=%s)\n%s" % (rc, err[-1500:]))
                rs.append(st["log_digest"])
                execs += 1
            if len(set(rs)) != 1:
                diffs.append({"prop": prop, "seed": seed, "digests": rs})
    return {"seeds": len(seeds), "runs_per_seed": n, "executions": execs, "builds": ["c++17 (auto-var-init=pattern)", "c++20 (auto-var-init=zero)"], "differences": diffs}


def gc_engine(seeds, bridges, traces):
    import c04
    tool = common.tool_build()
    js_dir = os.path.join(common.sim_dir(), "js")
    work = os.path.join(common.build_dir(), "gc-selfcheck")
    shutil.rmtree(work, ignore_errors=True)
    os.makedirs(work)
    diffs, execs, imprecise = [], 0, 0
    for seed in seeds:
        for idx in range(bridges):
            ready, _, _ = c04.prepare_bridge(tool, js_dir, work, seed, idx)
            for abi, d in ready:
                logs = []
                for rep in range(2):
                    f = os.path.join(work, "logs-%d-%d-%s-%d.txt" % (seed, idx, abi, rep))
                    if os.path.exists(f):
                        os.remove(f)
                    extra = ["--predictable"] if rep == 1 else []
                    rc, out, err = run_capture(["node", "--expose-gc"] + extra + [os.path.join(js_dir, "gcsim.mjs"), "--dir", d, "--seed", str(seed), "--bridge", str(idx), "--abi", abi, "--from", "0", "--to", str(traces), "--dumplogs", f])
                    st, _ = parse_stats(out)
                    if rc != 0 or st is None:
                        raise HarnessError("gc-sim failed during selfcheck (rc=%s)\n%s" % (rc, err[-1500:]))
                    imprecise += st["counters"].get("gc_imprecise", 0)
                    logs.append((open(f).read(), st["counters"].get("gc_imprecise", 0)))
                    execs += 1
                if logs[0][0] != logs[1][0] and logs[0][1] == 0 and logs[1][1] == 0:
                    a, b = logs[0][0].splitlines(), logs[1][0].splitlines()
                    first = next((i for i in range(min(len(a), len(b))) if a[i] != b[i]), None)
                    diffs.append({"seed": seed, "bridge": idx, "abi": abi, "first_differing_run": first})
        shutil.rmtree(work, ignore_errors=True)
        os.makedirs(work)
    shutil.rmtree(work, ignore_errors=True)
    return {"seeds": len(seeds), "bridges_per_seed": bridges, "traces_per_bridge": traces, "executions": execs, "second_execution_uses": "--predictable", "gc_imprecise_points": imprecise, "differences": diffs}


def proc_engine(seeds):
    """proc-sim: same cases twice in fresh interpreters under different PYTHONHASHSEED; digests of all tool outputs."""
    diffs, execs = [], 0
    code = ("import sys, json; sys.path.insert(0, %r); import c14; from prng import Rng\n"
            "seed=int(sys.argv[1]); ctx=c14.Ctx(); rng=Rng.derive(seed,'proc-sim',0); out=[]\n"
            "for corpus in sorted(ctx.corpora):\n"
            "  edits=c14.gen_history(rng, 4, 0)\n"
            "  for i in range(len(edits)):\n"
            "    for be in c14.BACKENDS[:4]:\n"
            "      amb=c14.draw_ambient(rng); r=ctx.run_tool(corpus, edits[:i+1], be, amb); out.append((corpus, edits[:i+1], be[0], r['rc'], sorted(r['files'].items()), r['diag']))\n"
            "import hashlib; print('DIGEST', hashlib.sha1(json.dumps(out, sort_keys=True).encode()).hexdigest(), len(out))\n") % os.path.join(common.VERIF, "lib")
    for seed in seeds:
        rs = []
        for hs in ("1", "987654"):
            env = dict(os.environ)
            env["PYTHONHASHSEED"] = hs
            r = subprocess.run([sys.executable, "-c", code, str(seed)], env=env, stdout=subprocess.PIPE, stderr=subprocess.PIPE, text=True)
            line = [l for l in r.stdout.splitlines() if l.startswith("DIGEST ")]
            if r.returncode != 0 or not line:
                raise HarnessError("proc-sim selfcheck subprocess failed\n%s" % r.stderr[-2000:])
            rs.append(line[0])
            execs += 1
        if len(set(rs)) != 1:
            diffs.append({"seed": seed, "digests": rs})
    return {"seeds": len(seeds), "executions": execs, "pythonhashseeds": [1, 987654], "differences": diffs}


def main(pos, opts, seed):
    t0 = time.time()
    deep = opts.get("tier") == "thorough"
    engines = pos or ENGINES
    nseeds = 64 if deep else 8
    seeds = [seed + i for i in range(nseeds)]
    report = {}
    if any(e in engines for e in ("write-sim", "own-l1", "own-l2", "write-l2")):
        bindir = cargo_build(["write-sim", "own-sim"])
    for e in engines:
        t1 = time.time()
        if e == "write-sim":
            report[e] = rust_engine(os.path.join(bindir, "write-sim"), [], seeds, 20000)
        elif e == "own-l1":
            report[e] = rust_engine(os.path.join(bindir, "own-sim"), ["l1"], seeds, 20000)
        elif e == "own-l2":
            report[e] = rust_engine(os.path.join(bindir, "own-sim"), ["l2"], seeds, 20000)
        elif e == "write-l2":
            report[e] = rust_engine(os.path.join(bindir, "own-sim"), ["w2"], seeds, 20000)
        elif e == "cpp":
            report[e] = cpp_engine(seeds[: max(2, nseeds // 4)], 2000)
        elif e == "gc-sim":
            report[e] = gc_engine(seeds[: max(2, nseeds // 4)], 6, 40)
        elif e == "proc-sim":
            report[e] = proc_engine(seeds[: max(2, nseeds // 4)])
        else:
            raise HarnessError("unknown engine %r" % e)
        report[e]["wall_s"] = round(time.time() - t1, 1)
        log("[selfcheck] %s: %d executions, %d differences (%.1fs)" % (e, report[e]["executions"], len(report[e]["differences"]), time.time() - t1))
    os.makedirs(os.path.join(common.VERIF, "reports"), exist_ok=True)
    out = os.path.join(common.VERIF, "reports", "selfcheck.json")
    prev = {}
    if os.path.exists(out):
        try:
            prev = json.load(open(out)).get("engines", {})
        except ValueError:
            prev = {}
    prev.update(report)
    json.dump({"seed": seed, "engines": prev, "wall_s": round(time.time() - t0, 1)}, open(out, "w"), indent=1)
    bad = [e for e in report if report[e]["differences"]]
    if bad:
        print("HARNESS-ERROR: non-deterministic engines: %s (see %s)" % (", ".join(bad), out), file=sys.stderr)
        return 2
    return 0


def silence(pos, opts, seed):
    """./check silence [ID...] [--seeds N] — the quick checks must stay silent on the unchanged tree for many seeds
    (no VIOLATION, exit 0, KNOWN-FINDING lines allowed). Never rewrites the evidence. Report: reports/silence.json."""
    props = pos or ["C03", "C04", "C12", "C14"]
    n = int(opts.get("seeds", "5"))
    out = {}
    bad = []
    for prop in props:
        rows = []
        for i in range(n):
            sd = seed + 1000 + i * 7919
            env = dict(os.environ)
            env.update({"VERIF_SEED": str(sd), "VERIF_NO_EVIDENCE": "1"})
            env.pop("VERIF_REPO_DIR", None)
            t1 = time.time()
            r = subprocess.run([os.path.join(common.VERIF, "check"), prop, "--tier", "quick"], cwd=common.VERIF, env=env, stdout=subprocess.PIPE, stderr=subprocess.STDOUT, text=True)
            viol = [l for l in r.stdout.splitlines() if l.startswith("VIOLATION ")]
            rows.append({"seed": sd, "rc": r.returncode, "violations": viol, "wall_s": round(time.time() - t1, 1)})
            log("[silence] %s seed=%d rc=%d (%.0fs)" % (prop, sd, r.returncode, time.time() - t1))
            if r.returncode != 0 or viol:
                bad.append((prop, sd))
                rows[-1]["tail"] = r.stdout[-1500:]
        out[prop] = rows
    os.makedirs(os.path.join(common.VERIF, "reports"), exist_ok=True)
    json.dump({"base_seed": seed, "runs": out}, open(os.path.join(common.VERIF, "reports", "silence.json"), "w"), indent=1)
    if bad:
        print("HARNESS-ERROR: quick checks were not silent on the unchanged tree for %s" % bad, file=sys.stderr)
        return 2
    return 0
