"""C14 — output is a deterministic, order-independent, local function of the bridge (`proc-sim`, DESIGN.md §6).

One trace = (corpus, edit history, backend configuration, two ambient draws). Every `diplomat-tool`
process runs under the preload shim with ASLR off; entropy, clock, pid, hostname, heap layout, cwd,
path spelling, environment and a stale output directory are all decided by the trace.
"""
import hashlib
import json
import os
import re
import shutil
import subprocess
import threading
import time
from concurrent.futures import ThreadPoolExecutor

import common
from common import (ENV, NCPU, REPLAYS, HarnessError, build_dir, cargo_build, log, repo_dir, repo_state, run_capture, save_replay,
                    sim_dir, tool_build, write_evidence)
from prng import Rng

PROP = "C14"

BUDGET = {
    "quick": {"histories": 8, "edits": 6},
    "thorough": {"histories": 60, "edits": 8},
}

DOCS_URLS = ["-u", "*:https://docs.example/any/", "-u", "vsim:https://vsim.example/api/", "-u", "vsim_core:https://core.vsim.example/", "-u", "icu:https://icu.example/rustdoc/",
             "-u", "fixed:https://fixed.example/", "-u", "fixed_decimal:https://fd.example/", "-u", "std:https://doc.rust-lang.org/"]

# (name, backend argument, extra command-line arguments)
BACKENDS = [
    ("c", "c", []),
    ("cpp", "cpp", []),
    ("js-legacy", "js", []),
    ("js-spec", "js", ["--config", "js.abi=spec"]),
    ("dart", "dart", []),
    ("kotlin", "kotlin", []),
    ("kotlin-finalizers", "kotlin", ["--config", "kotlin.use_finalizers_not_cleaners=true"]),
    ("nanobind", "nanobind", []),
    # the same setting from two sources in two spellings: config.toml `[nanobind] lib-name` (kebab) and --config (snake)
    ("nanobind-libname-two-sources", "nanobind", ["--config", "nanobind.lib_name=vsimfromcli"]),
    ("nanobind-libname-cli-kebab", "nanobind", ["--config", "nanobind.lib-name=vsimfromclikebab"]),
    ("kotlin-libname-two-sources", "kotlin", ["--config", "kotlin.lib_name=vsimfromcli", "--config", "kotlin.domain=dev.vsimcli"]),
    ("demo_gen", "demo_gen", []),
    # documentation base URLs (-u): a default, and per-crate entries some of whose keys are prefixes of one another and of
    # crates that the corpora link to without an entry of their own (`vsim`, `vsim_core` vs. links into `vsim_core_util`)
    ("cpp-docs-urls", "cpp", DOCS_URLS),
    ("js-docs-urls", "js", DOCS_URLS),
]

# Files that legitimately mention every type (module indexes, library-wide tables). D3 ("adding an
# unreferenced type leaves every other type's generated file unchanged") exempts exactly these; the
# list was established on the unchanged tree and is matched by file name, per backend.
AGGREGATES = {
    "js": re.compile(r"^(index\.mjs|index\.d\.ts)$"),
    "dart": re.compile(r"^lib\.g\.dart$"),
    "nanobind": re.compile(r"^[A-Za-z0-9_]+_ext\.cpp$"),
    "demo_gen": re.compile(r"^js/index\.(mjs|d\.ts)$"),
    # Lib.kt is Kotlin's library-wide file (library loader, helper classes for the slice / option / result shapes the
    # whole library uses): an inserted type that brings a new shape adds a helper there
    "kotlin": re.compile(r"(^|/)Lib\.kt$"),
}

ANSI = re.compile(r"\x1b\[[0-9;]*m")
WORD = re.compile(r"[A-Za-z_][A-Za-z0-9_]*")


def build_shim(repo=None):
    sd = sim_dir(repo)
    # (a file of this process: a second C14 run must not rewrite the library while this one preloads it)
    out = os.path.join(common.private_work_dir(build_dir(repo), "shim"), "shim.so")
    src = os.path.join(sd, "proc", "shim.c")
    r = subprocess.run(["gcc", "-O1", "-shared", "-fPIC", "-o", out, src, "-ldl"], stdout=subprocess.PIPE, stderr=subprocess.STDOUT, text=True)
    if r.returncode != 0:
        raise HarnessError("gcc failed on shim.c:\n" + r.stdout)
    return out


def aslr_prefix():
    """`setarch -R` switches address-space randomisation off for the child. If the sandbox forbids
    personality(2) the heap-address dimension is reported as not controlled instead."""
    r = subprocess.run(["setarch", "x86_64", "-R", "true"], stdout=subprocess.DEVNULL, stderr=subprocess.DEVNULL)
    return ["setarch", "x86_64", "-R"] if r.returncode == 0 else []


class Ctx:
    def __init__(self, repo=None, seed_for_generated=1):
        self.repo = repo or repo_dir()
        self.tool = tool_build(self.repo)
        self.permute = os.path.join(cargo_build(["permute"], self.repo), "permute")
        self.shim = build_shim(self.repo)
        self.aslr = aslr_prefix()
        self.work = common.private_work_dir(build_dir(self.repo), "proc-work")
        sd = sim_dir(self.repo)
        self.corpora = {}
        for name, d in (("feature_tests", os.path.join(self.repo, "feature_tests")), ("example", os.path.join(self.repo, "example")), ("vbridge", os.path.join(sd, "rs", "vbridge")), ("shapes", os.path.join(sd, "proc", "shapes"))):
            entry = os.path.join(d, "src", "lib.rs")
            if not os.path.exists(entry):
                continue
            cdir = os.path.join(self.work, name)
            os.makedirs(os.path.join(cdir, "src"))
            os.makedirs(os.path.join(cdir, "elsewhere"))
            # files the backends read relative to the entry (demo_gen custom functions live in ../demo_gen)
            for extra in ("demo_gen",):
                if os.path.isdir(os.path.join(d, extra)):
                    shutil.copytree(os.path.join(d, extra), os.path.join(cdir, extra))
            cfg = os.path.join(d, "config.toml")
            if os.path.exists(cfg):
                shutil.copy(cfg, os.path.join(cdir, "config.toml"))
            else:
                with open(os.path.join(cdir, "config.toml"), "w") as f:
                    f.write('lib-name = "vsimlib"\n\n[kotlin]\ndomain = "dev.vsim"\n\n[demo-gen]\nrelative-js-path = "../js/"\n')
            # language-scoped kebab-case spellings in the file, so that some backend configurations receive the
            # same setting from two sources (the documented precedence must decide, never the hash order)
            text = open(os.path.join(cdir, "config.toml")).read()
            if "[nanobind]" not in text:
                text += '\n\n[nanobind]\nlib-name = "vsimfromfile"\n'
            if "[kotlin]" in text and "lib-name = \"vsimfromfilek\"" not in text:
                text = text.replace("[kotlin]", '[kotlin]\nlib-name = "vsimfromfilek"', 1)
            with open(os.path.join(cdir, "config.toml"), "w") as f:
                f.write(text)
            self.corpora[name] = {"entry": entry, "dir": cdir, "states": {}}
        # two bridges from gc-sim's generator (lifetime-heavy signatures, borrowing structs, out-structs)
        for gi in range(2):
            name = "generated%d" % gi
            cdir = os.path.join(self.work, name)
            os.makedirs(os.path.join(cdir, "elsewhere"))
            rc, o, e = run_capture(["node", os.path.join(sd, "js", "gen.mjs"), "--seed", str(seed_for_generated), "--bridge", str(1000 + gi), "--out", cdir])
            if rc != 0:
                raise HarnessError("gen.mjs failed: " + e[-1500:])
            with open(os.path.join(cdir, "config.toml"), "w") as f:
                f.write('lib-name = "vsimgen"\n\n[kotlin]\ndomain = "dev.vsim"\nlib-name = "vsimfromfilek"\n\n[demo-gen]\nrelative-js-path = "../js/"\n\n[nanobind]\nlib-name = "vsimfromfile"\n')
            self.corpora[name] = {"entry": os.path.join(cdir, "src", "lib.rs"), "dir": cdir, "states": {}}
        self.counters = {}
        self.seam = {"getrandom": 0, "clock": 0, "getpid": 0, "gethostname": 0, "heap_allocs": 0}
        self.listing_orders = {}
        self.runs = 0
        self.run_cache = {}
        self.lock = threading.Lock()

    def inc(self, k, n=1):
        with self.lock:
            self.counters[k] = self.counters.get(k, 0) + n

    def state_source(self, corpus, edits):
        """Source file for `corpus` after `edits` (cached). Pure function of (entry file, edits)."""
        c = self.corpora[corpus]
        key = ";".join(edits)
        if key in c["states"]:
            return c["states"][key]
        h = hashlib.sha1(key.encode()).hexdigest()[:12]
        out = os.path.join(c["dir"], "src", "state_%s.rs" % h)
        cmd = [self.permute, "--entry", c["entry"], "--out", out]
        for e in edits:
            cmd += ["--edit", e]
        rc, o, e = run_capture(cmd)
        if rc != 0:
            raise HarnessError("permute failed: %s\n%s" % (" ".join(cmd), e[-2000:]))
        c["states"][key] = out
        try:
            c.setdefault("canon", {})[key] = hashlib.sha1(open(out + ".canon", "rb").read()).hexdigest()
        except OSError:
            pass
        return out

    def run_tool(self, corpus, edits, backend, amb):
        """One simulated diplomat-tool process. Returns a result dict (files: relpath -> sha1)."""
        ck = (corpus, ";".join(edits), backend[0], json.dumps(amb, sort_keys=True))
        if ck in self.run_cache:
            return self.run_cache[ck]
        c = self.corpora[corpus]
        src = self.state_source(corpus, edits)
        rid = hashlib.sha1(repr(ck).encode()).hexdigest()[:16]
        out_dir = os.path.join(c["dir"], "out", rid)
        shutil.rmtree(out_dir, ignore_errors=True)
        os.makedirs(out_dir)
        if amb["stale"]:
            # a stale output directory: files of some earlier, different run are lying around
            for i, nm in enumerate(("Stale.h", "index.mjs", "Stale.hpp", "lib.g.dart", "zz/Old.kt")):
                p = os.path.join(out_dir, nm)
                os.makedirs(os.path.dirname(p), exist_ok=True)
                with open(p, "w") as f:
                    f.write("stale content %d\n" % i)
        cwd = c["dir"] if amb["cwd"] == 0 else os.path.join(c["dir"], "elsewhere")

        def spell(p, how):
            return p if how else os.path.relpath(p, cwd)
        if amb["stale"] and amb["entropy"] % 2 == 0:
            # ... and in half of those cases the directory is one an earlier run on an earlier revision wrote into: the tool
            # itself generates the *unedited* corpus there first, and every file it left is then overwritten with other
            # bytes of the same length (same names, same sizes, different contents - what a size- or time-stamp-based
            # "is it up to date?" shortcut would mistake for current output). Which runs do this is a function of the trace
            # (the entropy draw), and the pre-run sees the base ambient, so the run stays a pure function of its trace.
            pre_env = {"PATH": ENV.get("PATH", "/usr/bin:/bin"), "LD_PRELOAD": self.shim, "VSIM_ENTROPY": "1", "VSIM_CLOCK": "1700000000", "VSIM_PID": "4242", "VSIM_HOST": "vsim-host", "VSIM_HEAP": "0",
                       "VSIM_REPORT": os.path.join(out_dir + ".prereport"), "HOME": "/nonexistent", "RUST_BACKTRACE": "0", "NO_COLOR": "1"}
            subprocess.run(self.aslr + [self.tool, backend[1], out_dir, "-e", self.state_source(corpus, []), "-c", os.path.join(c["dir"], "config.toml"), "-s"] + backend[2],
                           cwd=c["dir"], env=pre_env, stdout=subprocess.DEVNULL, stderr=subprocess.DEVNULL)
            try:
                os.remove(out_dir + ".prereport")
            except OSError:
                pass
            n_same = 0
            for root, _, names in os.walk(out_dir):
                for nm in names:
                    p = os.path.join(root, nm)
                    size = os.path.getsize(p)
                    with open(p, "wb") as f:
                        f.write((b"// stale bytes of an earlier revision\n" * (size // 38 + 1))[:size])
                    n_same += 1
            with self.lock:
                self.stale_same_size = getattr(self, "stale_same_size", 0) + 1
                self.stale_same_size_files = getattr(self, "stale_same_size_files", 0) + n_same
        report = os.path.join(out_dir + ".report")
        env = {
            "PATH": ENV.get("PATH", "/usr/bin:/bin"),
            "LD_PRELOAD": self.shim,
            "VSIM_ENTROPY": str(amb["entropy"]), "VSIM_CLOCK": str(amb["clock"]), "VSIM_PID": str(amb["pid"]), "VSIM_HOST": amb["host"],
            "VSIM_HEAP": str(amb["heap"]), "VSIM_REPORT": report,
            "HOME": amb["home"], "USER": amb["user"], "LANG": amb["lang"], "TERM": amb["term"], "TZ": amb["tz"],
            "RUST_BACKTRACE": "0",
        }
        if amb["no_color"]:
            env["NO_COLOR"] = "1"
        cmd = self.aslr + [self.tool, backend[1], spell(out_dir, amb["abs_out"]), "-e", spell(src, amb["abs_entry"]), "-c", spell(os.path.join(c["dir"], "config.toml"), amb["abs_cfg"])] + backend[2]
        r = subprocess.run(cmd, cwd=cwd, env=env, stdout=subprocess.PIPE, stderr=subprocess.PIPE, text=True, errors="replace")
        listing = []
        for line in ANSI.sub("", r.stdout).splitlines():
            line = line.strip()
            if line and not line.startswith("Generating "):
                p = line if os.path.isabs(line) else os.path.normpath(os.path.join(cwd, line))
                listing.append(os.path.relpath(p, out_dir))
        files = {}
        agg_lines = {}
        texts = {}
        for rel in listing:
            p = os.path.join(out_dir, rel)
            if os.path.isfile(p):
                with open(p, "rb") as f:
                    data = f.read()
                files[rel] = hashlib.sha1(data).hexdigest()
                texts[rel] = data
                if is_aggregate(backend[0], rel):
                    agg_lines[rel] = data.decode("utf-8", "replace").splitlines()
        # library-wide *listing* files recognised by content rather than by name: a file that names (almost) every
        # other file's stem is an index / umbrella / registration file, not "another type's file" (D3); it may gain
        # lines that name an inserted type and nothing else (checked in compare)
        stem_of = lambda rel: os.path.basename(rel).split(".")[0]
        stems = set(stem_of(rel) for rel in files)
        listing_files = []
        if len(stems) >= 3:
            for rel, data in texts.items():
                if rel in agg_lines or len(data) > 2_000_000:
                    continue
                words = set(WORD.findall(data.decode("utf-8", "replace")))
                # peers: the files in or below its directory with the same extension (an umbrella header lists the headers, an index
                # module the modules; binding sources or declarations elsewhere in the tree are not its business)
                ext = os.path.splitext(rel)[1]
                here = os.path.dirname(rel)
                under = lambda r2: not here or r2.startswith(here + "/")
                others = set(stem_of(r2) for r2 in files if under(r2) and os.path.splitext(r2)[1] == ext) - {stem_of(rel)}
                if len(others) >= 3 and len(others & words) >= 0.8 * len(others):
                    listing_files.append(rel)
                    agg_lines[rel] = data.decode("utf-8", "replace").splitlines()
        texts = None
        # diagnostics: paths and colours normalised, order irrelevant ("the *set* of diagnostics")
        # (the spelling of the entry path is an input and is echoed by some messages)
        src_dir_spelled = os.path.dirname(spell(src, amb["abs_entry"])) or "."
        # (the OS thread id std prints in panic messages is obtained by a raw syscall the shim cannot reach: normalised)
        stderr_text = re.sub(r"thread '([^']*)' \(\d+\)", r"thread '\1'", r.stderr)
        diag = sorted(set(l.strip() for l in ANSI.sub("", stderr_text).replace(src_dir_spelled + "/", "<src>/").replace(c["dir"], "<dir>").splitlines() if l.strip()))
        with self.lock:
            self.runs += 1
            try:
                for l in open(report):
                    k, v = l.split()
                    self.seam[k] = self.seam.get(k, 0) + int(v)
                os.remove(report)
            except OSError:
                pass
            lo = self.listing_orders.setdefault((corpus, backend[0], ";".join(edits)), {})
            lo.setdefault(hashlib.sha1("\n".join(listing).encode()).hexdigest(), 0)
        # only the hashes are kept: the trees are regenerated on replay
        shutil.rmtree(out_dir, ignore_errors=True)
        res = {"rc": r.returncode, "files": files, "agg_lines": agg_lines, "listing_files": listing_files, "diag": diag, "out_dir": out_dir, "cmd": cmd, "cwd": cwd, "listing_len": len(listing)}
        if r.returncode < 0 or "panicked at" in r.stderr:
            res["crashed"] = True
        self.run_cache[ck] = res
        return res


def draw_ambient(rng):
    return {
        "entropy": 1 + rng.below(1 << 30), "clock": rng.pick([1, 86399, 946684799, 1700000000, 2147483647, 4102444800]) + rng.below(1000),
        "pid": 2 + rng.below(4000000), "host": rng.pick(["a", "build-7", "x" * 40]), "heap": rng.below(1 << 20),
        "cwd": rng.below(2), "abs_out": rng.below(2), "abs_entry": rng.below(2), "abs_cfg": rng.below(2), "stale": rng.below(2),
        "home": rng.pick(["/root", "/nonexistent", "/tmp"]), "user": rng.pick(["root", "ci", ""]), "lang": rng.pick(["C", "en_US.UTF-8", "tr_TR.UTF-8"]),
        "term": rng.pick(["dumb", "xterm-256color", ""]), "tz": rng.pick(["UTC", "Asia/Tokyo", "America/St_Johns"]), "no_color": rng.below(2),
    }


BASE_AMBIENT = {"entropy": 1, "clock": 1700000000, "pid": 4242, "host": "vsim-host", "heap": 0, "cwd": 0, "abs_out": 1, "abs_entry": 1, "abs_cfg": 1, "stale": 0,
                "home": "/root", "user": "root", "lang": "C", "term": "dumb", "tz": "UTC", "no_color": 1}


# (kind, name prefix = where the type sorts among the existing ones, target module: 0 any / 1000 last-by-path / 2000 first-by-path):
# a short list of combinations that matter to backends which walk types in sorted order, cycled so that a batch covers them
# "opaque_uses" adds, to every original bridge module, an unreferenced opaque whose methods take that module's own types
# (by value, behind &, inside Option): other *users* of existing types, generated before ("Aa") or after ("Zz") them
INSERT_PROFILES = [("opaque_impl", "Zz", 1000), ("opaque_impl", "Aa", 2000), ("trait", "Aa", 2000), ("struct", "", 0), ("opaque_uses", "Aa", 0),
                   ("trait", "Zz", 1000), ("enum", "", 0), ("opaque_uses", "Zz", 0), ("opaque", "Zz", 1000), ("opaque_impl", "", 0), ("opaque_uses", "", 0)]


def insert_edit(rng, inserted, hidx, i, profile):
    kind, prefix, target = INSERT_PROFILES[profile]
    name = "%sVerifExtra%d_%d" % (prefix, hidx, i)
    inserted.append(name)
    return "insert_type:%s:%s:%d" % (name, kind, target + rng.below(64))


def gen_history(rng, n_edits, hidx):
    """A history is a list of edits; each state i is edits[:i]. Every history starts with an insertion whose profile
    is cycled over the batch; the remaining edits are drawn."""
    edits = []
    inserted, nonbridge, shadows = [], False, []
    edits.append(insert_edit(rng, inserted, hidx, 0, hidx % len(INSERT_PROFILES)))
    for i in range(1, n_edits):
        r = rng.below(14)
        if r >= 12:
            if shadows and rng.chance(1, 2):
                edits.append("remove_shadow_module:%d" % shadows.pop())
            else:
                k = hidx * 100 + i
                shadows.append(k)
                edits.append("insert_shadow_module:%d:%d" % (k, 1 + rng.below(1 << 30)))
            continue
        if r < 1:
            edits.append("noop")
        elif r < 3:
            edits.append("perm_mods:%d" % (1 + rng.below(1 << 30)))
        elif r < 5:
            edits.append("perm_types:%d" % (1 + rng.below(1 << 30)))
        elif r < 8:
            if inserted and rng.chance(2, 3):
                edits.append("remove_type:%s" % inserted.pop())
            else:
                edits.append(insert_edit(rng, inserted, hidx, i, (hidx * 3 + i) % len(INSERT_PROFILES)))
        else:
            if nonbridge and rng.chance(1, 2):
                edits.append("remove_nonbridge")
                nonbridge = False
            else:
                edits.append("insert_nonbridge:%d" % (1 + rng.below(1 << 30)))
                nonbridge = True
    return edits


def is_aggregate(backend_name, rel):
    fam = backend_name.split("-")[0]
    pat = AGGREGATES.get(fam)
    return bool(pat and pat.search(rel))


def compare(ctx, backend, before, after, oracle, edit):
    """Returns None or a dict describing the first difference the oracle forbids."""
    if before.get("crashed") or after.get("crashed"):
        # a crash of the tool is C15's subject; here it only means this comparison cannot be made
        ctx.inc("tool_crashed_comparison_skipped")
        return None
    if edit.startswith("insert_shadow_module") and before["rc"] == 0 and after["rc"] != 0:
        # backends that do not render renames reject (or collide on) a same-named type: not this property's subject
        ctx.inc("shadow_module_rejected_by_backend")
        return None
    if edit.startswith("insert_type:") and ":opaque_uses:" in edit and before["rc"] == 0 and after["rc"] != 0:
        # the inserted type uses existing types in ways this backend (or this type's attributes) may not allow:
        # then it simply is not an accepted module for this backend, and there is nothing to compare
        ctx.inc("inserted_user_type_rejected_by_backend:" + backend[0].split("-")[0])
        return None
    if before["rc"] != after["rc"]:
        return {"what": "exit status %d vs %d" % (before["rc"], after["rc"])}
    if before["rc"] != 0:
        ctx.inc("tool_rejected")
        if oracle != "D3" and before["diag"] != after["diag"]:
            return {"what": "diagnostics differ", "a": before["diag"][:5], "b": after["diag"][:5]}
        return None
    fa, fb = before["files"], after["files"]
    if oracle in ("D1", "D2", "D4", "D3-remove"):
        if set(fa) != set(fb):
            return {"what": "file sets differ", "only_before": sorted(set(fa) - set(fb))[:5], "only_after": sorted(set(fb) - set(fa))[:5]}
        for rel in sorted(fa):
            if fa[rel] != fb[rel]:
                return {"what": "file differs", "file": rel}
        if before["diag"] != after["diag"]:
            return {"what": "diagnostics differ", "a": before["diag"][:5], "b": after["diag"][:5]}
        return None
    # D3 insert: every file that existed before and is another type's file must be byte-identical
    new_name = edit.split(":")[1]
    for rel in sorted(fa):
        if rel not in fb:
            return {"what": "file of another type disappeared", "file": rel}
        if fa[rel] != fb[rel]:
            if is_aggregate(backend[0], rel):
                ctx.inc("aggregate_file_changed_on_insert")
                # probe only (the property speaks of other types' files, not of library-wide files): does the aggregate
                # file change in lines that do not mention the inserted type?
                strip = lambda lines: [l for l in lines if new_name not in l and new_name.lower() not in l.lower()]
                if strip(before.get("agg_lines", {}).get(rel, [])) != strip(after.get("agg_lines", {}).get(rel, [])):
                    ctx.inc("probe_aggregate_file_changed_beyond_lines_naming_the_new_type")
                continue
            if rel in before.get("listing_files", []):
                # a listing file found by content: lines naming the inserted type may come, nothing else may change
                strip = lambda lines: [l for l in lines if new_name not in l and new_name.lower() not in l.lower()]
                if strip(before.get("agg_lines", {}).get(rel, [])) == strip(after.get("agg_lines", {}).get(rel, [])):
                    ctx.inc("listing_file_found_by_content_gained_lines_naming_the_new_type")
                    continue
                return {"what": "a library-wide listing file changed beyond the lines that name the inserted type", "file": rel, "inserted": new_name}
            return {"what": "another type's file changed when an unreferenced type was added", "file": rel, "inserted": new_name}
    return None


def oracle_for(edit):
    k = edit.split(":")[0]
    if k in ("insert_shadow_module",):
        return "D3"
    if k in ("remove_shadow_module",):
        return "D3-remove"
    return {"<original>": "D1", "noop": "D1", "perm_mods": "D2", "perm_types": "D2", "insert_type": "D3", "remove_type": "D3-remove", "insert_nonbridge": "D4", "remove_nonbridge": "D4"}[k]


def reference_state(edits, i):
    """Edit list of the state the i-th edit's result is compared with."""
    e = edits[i]
    if e == "<original>":
        return edits
    if e.startswith("remove_shadow_module:"):
        k = e.split(":")[1]
        j = max(x for x in range(i) if edits[x].startswith("insert_shadow_module:%s:" % k))
        return edits[:j] + [x for x in edits[j + 1:i]]
    if e.startswith("remove_type:"):
        name = e.split(":")[1]
        # history independence: compare with the state just before the matching insertion, provided
        # every edit in between is output-neutral or itself undone... keep it simple and exact: only
        # when the insertion is the directly preceding type-changing edit chain we compare against
        # state(j) where j is the insertion index, with the neutral edits in between applied too.
        j = max(k for k in range(i) if edits[k].startswith("insert_type:%s:" % name))
        return edits[:j] + [x for x in edits[j + 1:i]]
    return edits[:i]


def run_case(ctx, corpus, edits, i, backend, amb_a, amb_b):
    e = edits[i]
    oracle = oracle_for(e)
    ref_edits = reference_state(edits, i)
    before = ctx.run_tool(corpus, ref_edits, backend, amb_a)
    after = ctx.run_tool(corpus, edits[:i + 1] if e != "<original>" else edits, backend, amb_b)
    if oracle in ("D2", "D3-remove") and e != "<original>":
        # safety net of the harness itself: these oracles compare two states that must be the *same program* up to
        # declaration order. If the edit histories did not commute (a harness mistake), the comparison is void.
        canon = ctx.corpora[corpus].get("canon", {})
        ca, cb = canon.get(";".join(ref_edits)), canon.get(";".join(edits[:i + 1]))
        if ca is not None and cb is not None and ca != cb:
            ctx.inc("reference_state_not_equivalent_comparison_skipped")
            return oracle, None, before, after
    diff = compare(ctx, backend, before, after, oracle, e)
    return oracle, diff, before, after


def minimise(ctx, corpus, edits, i, backend, amb_a, amb_b, oracle):
    """Drop edits that are not needed and zero ambient dimensions one at a time."""
    def still(ed, idx, a, b):
        try:
            o, d, _, _ = run_case(ctx, corpus, ed, idx, backend, a, b)
        except (HarnessError, ValueError):
            return False
        return d is not None and o == oracle
    ed, idx = list(edits[:i + 1]), i
    k = 0
    while k < idx:
        cand = ed[:k] + ed[k + 1:]
        # never drop the insertion a remove_type refers to
        if ed[idx].startswith("remove_type:") and ed[k].startswith("insert_type:%s:" % ed[idx].split(":")[1]):
            k += 1
            continue
        if ed[idx].startswith("remove_shadow_module:") and ed[k].startswith("insert_shadow_module:%s:" % ed[idx].split(":")[1]):
            k += 1
            continue
        if still(cand, idx - 1, amb_a, amb_b):
            ed, idx = cand, idx - 1
        else:
            k += 1
    a, b = dict(amb_a), dict(amb_b)
    responsible = []
    for dim in sorted(BASE_AMBIENT):
        a2, b2 = dict(a), dict(b)
        a2[dim] = BASE_AMBIENT[dim]
        b2[dim] = BASE_AMBIENT[dim]
        if still(ed, idx, a2, b2):
            a, b = a2, b2
        else:
            responsible.append(dim)
    return ed, idx, a, b, responsible


def check(tier, seed):
    t0 = time.time()
    b = BUDGET[tier]
    ctx = Ctx(seed_for_generated=seed)
    rng = Rng.derive(seed, "proc-sim", 0)
    cases = []
    samples = []
    for corpus in sorted(ctx.corpora):
        # the repository's original multi-file layout, twice, under two ambient draws (D1 on the real files)
        for hidx in range(b["histories"]):
            edits = gen_history(rng, b["edits"], hidx)
            if len(samples) < 4:
                samples.append({"corpus": corpus, "history": edits})
            for i in range(len(edits)):
                for backend in BACKENDS:
                    cases.append((corpus, edits, i, backend, draw_ambient(rng), draw_ambient(rng)))
    violations = []
    evaluated = {"D1": 0, "D2": 0, "D3": 0, "D3-remove": 0, "D4": 0}
    distinct = set()

    def work(case):
        corpus, edits, i, backend, a, bb = case
        return case, run_case(ctx, corpus, edits, i, backend, a, bb)
    # pre-build all state sources sequentially (permute is cheap) so threads only run the tool
    for corpus, edits, i, backend, a, bb in cases:
        ctx.state_source(corpus, reference_state(edits, i))
        ctx.state_source(corpus, edits[:i + 1])
    first = None
    with ThreadPoolExecutor(max_workers=NCPU) as ex:
        for case, (oracle, diff, before, after) in ex.map(work, cases):
            evaluated[oracle] += 1
            corpus, edits, i, backend, a, bb = case
            distinct.add((corpus, edits[i].split(":")[0], backend[0], ";".join(edits[:i + 1])))
            if diff is not None and first is None:
                first = (case, oracle, diff)
    # D1 on the repository's original multi-file layout (not re-printed): two draws per backend per corpus
    for corpus in sorted(ctx.corpora):
        c = ctx.corpora[corpus]
        c["states"]["<original>"] = c["entry"]
        for backend in BACKENDS:
            a, bb = draw_ambient(rng), draw_ambient(rng)
            ra = ctx.run_tool(corpus, ["<original>"], backend, a)
            rb = ctx.run_tool(corpus, ["<original>"], backend, bb)
            evaluated["D1"] += 1
            distinct.add((corpus, "original-layout", backend[0], ""))
            diff = compare(ctx, backend, ra, rb, "D1", "noop")
            if diff is not None and first is None:
                first = ((corpus, ["<original>"], 0, backend, a, bb), "D1", diff)
    if first is not None:
        case, oracle, diff = first
        corpus, edits, i, backend, a, bb = case
        ed, idx, ma, mb, responsible = minimise(ctx, corpus, edits, i, backend, a, bb, oracle)
        _, mdiff, before, after = run_case(ctx, corpus, ed, idx, backend, ma, mb)
        rep = {"property": PROP, "oracle": oracle, "corpus": corpus, "backend": backend[0], "edits": ed, "edit_index": idx, "ambient_a": ma, "ambient_b": mb,
               "responsible_ambient_dimensions": responsible, "difference": mdiff or diff, "seed": seed,
               "original": {"edits": edits[:i + 1], "ambient_a": a, "ambient_b": bb},
               "commands": [{"cwd": before["cwd"], "argv": before["cmd"]}, {"cwd": after["cwd"], "argv": after["cmd"]}]}
        p = save_replay("C14-%s-%s-%d.json" % (oracle, backend[0], seed), json.dumps(rep, indent=1))
        violations.append("VIOLATION property=%s replay=%s oracle=%s corpus=%s backend=%s edit=%s detail=%s" % (PROP, p, oracle, corpus, backend[0], ed[idx], json.dumps(mdiff or diff)))

    # ---- reach: the entropy seam must actually move HashMap iteration order
    orders = max((len(v) for v in ctx.listing_orders.values()), default=0)
    if orders < 2 and ctx.runs > 20:
        raise HarnessError("the entropy seam does not reach the tool: the file listing order never changed across %d runs" % ctx.runs)
    wall = time.time() - t0
    cov = {
        "evaluations": sum(evaluated.values()),
        "distinct_nontrivial": len(distinct),
        "rule": ("A case is one comparison: (corpus, edit-history prefix, backend configuration, ambient draw A for the reference state, ambient draw B for the edited state). "
                 "Histories of edits (noop, permute modules, permute type declarations, insert/remove an unreferenced type, insert/remove non-bridge items) are drawn from xoshiro128**(VERIF_SEED); "
                 "every state is generated for all backend configurations under a fresh ambient draw (entropy=HashMap seeds, clock, pid, hostname, heap layout with ASLR off, cwd, path spelling, env, stale out dir). "
                 "distinct = distinct (corpus, edit kind, backend, edit-history prefix); every case is non-trivial (two different ambient draws, and except for noop a different source)."),
        "samples": samples,
        "exhaustive": False,
        "comparisons_per_oracle": evaluated,
        "tool_processes_simulated": ctx.runs,
        "runs_per_hour": int(ctx.runs / max(wall, 1e-9) * 3600),
        "fault_kinds_fired": {"ambient_entropy_draws": ctx.runs, "stale_output_dir": sum(1 for k in ctx.run_cache if json.loads(k[3])["stale"]), "stale_output_dir_from_an_earlier_revision_same_names_and_sizes": getattr(ctx, "stale_same_size", 0), "stale_same_size_files_written": getattr(ctx, "stale_same_size_files", 0),
                              "relative_path_spelling": sum(1 for k in ctx.run_cache if not json.loads(k[3])["abs_entry"]), "cwd_elsewhere": sum(1 for k in ctx.run_cache if json.loads(k[3])["cwd"])},
        "not_controlled": ["OS thread id (raw gettid syscall; only visible in panic messages, normalised away)"],
        "seam_reach": {"calls_seen_by_shim": ctx.seam, "max_distinct_listing_orders_per_corpus_backend": orders, "aslr_disabled": bool(ctx.aslr),
                       "note": "a seam with 0 calls is a source the tool does not consult on this tree (clock, pid, hostname); it stays simulated so that a change which starts consulting it is caught"},
        "simulated_time_span_s": [1, 4102445800],
        "probes": ctx.counters,
        "backend_configurations": [x[0] for x in BACKENDS],
        "corpora": sorted(ctx.corpora),
        "components": {"real": ["the whole diplomat-tool binary built from the tree under test", "syn-inline-mod file loading", "the real file system"],
                       "stub": ["getrandom / clock_gettime / gettimeofday / time / getpid / gethostname (LD_PRELOAD shim)", "address-space layout (ASLR off + seeded malloc pattern)"]},
        "tree_under_test": repo_state(),
    }
    assumptions = [
        "std obtains HashMap seeds through the interposable libc getrandom symbol (measured: listing order follows VSIM_ENTROPY)",
        "aggregate files (module indexes, library-wide tables) are exempt from D3 by the per-backend name list in lib/c14.py, established on the unchanged tree",
        "I/O errors while reading sources or writing outputs are not simulated (the property says nothing about them)",
    ]
    write_evidence(PROP, tier, seed, "exploration", cov, assumptions, wall, len(violations))
    for v in violations:
        print(v, flush=True)
    return 1 if violations else 0


def replay(path):
    rep = json.load(open(path))
    ctx = Ctx(seed_for_generated=rep.get("seed", 1))
    backend = [x for x in BACKENDS if x[0] == rep["backend"]][0]
    oracle, diff, before, after = run_case(ctx, rep["corpus"], rep["edits"], rep["edit_index"], backend, rep["ambient_a"], rep["ambient_b"])
    print("replayed %s on %s/%s: edits=%s" % (oracle, rep["corpus"], rep["backend"], rep["edits"]))
    if diff is not None:
        print("VIOLATION property=%s replay=%s oracle=%s detail=%s" % (PROP, path, oracle, json.dumps(diff)))
        return 1
    print("REPLAY-OK no violation")
    return 0
