"""./check setup — build everything the checks need from files on disk (offline)."""
import common


def main():
    common.cargo_build(["write-sim", "own-sim", "permute"])
    common.tool_build()
    import c03_cpp
    c03_cpp.build()
    c03_cpp.build_c()
    common.log("setup done")
    return 0
