"""Shared plumbing of the /verif check driver (DESIGN.md §2).

Exit codes: 0 property held on everything explored; 1 violation (a `VIOLATION property=<id>
replay=<path>` line is printed); 2 harness error (never printed as a violation).
"""
import hashlib
import json
import os
import re
import shutil
import subprocess
import sys
import time

VERIF = os.path.dirname(os.path.dirname(os.path.abspath(__file__)))
BUILD = os.path.join(VERIF, ".build")
REPLAYS = os.path.join(VERIF, "replays")
EVIDENCE = os.path.join(VERIF, "evidence")
KNOWN_FINDINGS = os.path.join(VERIF, "KNOWN_FINDINGS.txt")
DEFAULT_SEED = 20261002
NCPU = os.cpu_count() or 4

ENV = dict(os.environ)
ENV["CARGO_NET_OFFLINE"] = "true"
ENV.setdefault("CARGO_TERM_COLOR", "never")


class HarnessError(Exception):
    pass


def log(msg):
    print(msg, flush=True)


def seed_from_env():
    v = os.environ.get("VERIF_SEED", "").strip()
    if v:
        try:
            return int(v)
        except ValueError:
            raise HarnessError("VERIF_SEED is not an integer: %r" % v)
    return DEFAULT_SEED


def repo_dir():
    return os.path.realpath(os.environ.get("VERIF_REPO_DIR", "/repo"))


def build_key(repo=None):
    repo = repo or repo_dir()
    if repo == "/repo":
        return "repo"
    return "alt-" + hashlib.sha1(repo.encode()).hexdigest()[:10]


def build_dir(repo=None):
    d = os.path.join(BUILD, build_key(repo))
    os.makedirs(d, exist_ok=True)
    return d


def sim_dir(repo=None):
    """Directory holding the simulator sources whose `repo` symlink points at the tree under test.

    For /repo this is /verif/sim itself (the committed symlink sim/repo -> /repo). For any other
    tree (sensitivity runs in scratch copies) the sources are mirrored into the per-tree build
    directory and the symlink is re-pointed, so cargo's path dependencies resolve to that tree and
    its build products never mix with /repo's.
    """
    repo = repo or repo_dir()
    src = os.path.join(VERIF, "sim")
    if repo == "/repo":
        link = os.path.join(src, "repo")
        if os.path.realpath(link) != "/repo":
            raise HarnessError("sim/repo does not point at /repo")
        return src
    dst = os.path.join(build_dir(repo), "sim")
    os.makedirs(dst, exist_ok=True)
    run_checked(["rsync", "-a", "--delete", "--exclude", "/repo", "--exclude", "target", "--exclude", "node_modules", src + "/", dst + "/"])
    link = os.path.join(dst, "repo")
    if os.path.islink(link) or os.path.exists(link):
        if os.path.realpath(link) != repo:
            os.remove(link)
    if not os.path.islink(link):
        os.symlink(repo, link)
    return dst


def run_checked(cmd, cwd=None, env=None, timeout=None):
    r = subprocess.run(cmd, cwd=cwd, env=env or ENV, stdout=subprocess.PIPE, stderr=subprocess.STDOUT, text=True, timeout=timeout)
    if r.returncode != 0:
        raise HarnessError("command failed (%d): %s\n%s" % (r.returncode, " ".join(cmd), r.stdout[-4000:]))
    return r.stdout


def run_capture(cmd, cwd=None, env=None, timeout=None, stdin=None):
    """returns (returncode, stdout, stderr); never raises on non-zero"""
    r = subprocess.run(cmd, cwd=cwd, env=env or ENV, stdout=subprocess.PIPE, stderr=subprocess.PIPE, text=True, timeout=timeout, input=stdin, errors="replace")
    return r.returncode, r.stdout, r.stderr


def cargo_build(packages, repo=None, profile="release", extra=None):
    """Builds simulator packages against the tree under test; returns the directory of the binaries."""
    sd = sim_dir(repo)
    target = os.path.join(build_dir(repo), "target")
    cmd = ["cargo", "build", "--offline", "--target-dir", target]
    if profile == "release":
        cmd.append("--release")
    for p in packages:
        cmd += ["-p", p]
    cmd += extra or []
    t0 = time.time()
    r = subprocess.run(cmd, cwd=os.path.join(sd, "rs"), env=ENV, stdout=subprocess.PIPE, stderr=subprocess.STDOUT, text=True)
    if r.returncode != 0:
        raise HarnessError("cargo build failed for %s against %s:\n%s" % (packages, repo or repo_dir(), r.stdout[-6000:]))
    log("[build] %s (%s) %.1fs" % (" ".join(packages), profile, time.time() - t0))
    return os.path.join(target, "release" if profile == "release" else "debug")


def miri_cmd(package, repo=None):
    sd = sim_dir(repo)
    target = os.path.join(build_dir(repo), "miri-target")
    return ["cargo", "+nightly", "miri", "run", "--offline", "-q", "-p", package, "--target-dir", target, "--"], os.path.join(sd, "rs")


def tool_build(repo=None):
    """Builds diplomat-tool from the tree under test; returns the binary path."""
    repo = repo or repo_dir()
    target = os.path.join(build_dir(repo), "tool-target")
    t0 = time.time()
    r = subprocess.run(["cargo", "build", "--offline", "--manifest-path", os.path.join(repo, "Cargo.toml"), "-p", "diplomat-tool", "--target-dir", target],
                       env=ENV, stdout=subprocess.PIPE, stderr=subprocess.STDOUT, text=True)
    if r.returncode != 0:
        raise HarnessError("building diplomat-tool from %s failed:\n%s" % (repo, r.stdout[-6000:]))
    log("[build] diplomat-tool %.1fs" % (time.time() - t0))
    return os.path.join(target, "debug", "diplomat-tool")


def parse_stats(stdout):
    """Extracts the `STATS {json}` line and any VIOLATION lines an engine printed."""
    stats = None
    violations = []
    for line in stdout.splitlines():
        if line.startswith("STATS "):
            stats = json.loads(line[6:])
        elif line.startswith("VIOLATION property="):
            violations.append(line)
    return stats, violations


def extract_block(stdout, name):
    b = "-----BEGIN %s-----\n" % name
    e = "-----END %s-----" % name
    i = stdout.find(b)
    if i < 0:
        return None
    j = stdout.find(e, i)
    return stdout[i + len(b):j]


def save_replay(name, text):
    os.makedirs(REPLAYS, exist_ok=True)
    p = os.path.join(REPLAYS, name)
    with open(p, "w") as f:
        f.write(text)
    return p


def known_findings():
    """Parses KNOWN_FINDINGS.txt -> (findings, fixed); each a list of dicts {property, key/commit, text}.

    Lines:  finding: property=<id> key=<stable identification of the failing input/site> <free text>
            fixed: property=<id> <commit> <what failed>
    The file is never written at run time."""
    findings, fixed = [], []
    if not os.path.exists(KNOWN_FINDINGS):
        return findings, fixed
    for line in open(KNOWN_FINDINGS):
        line = line.strip()
        if not line or line.startswith("#"):
            continue
        if line.startswith("finding:"):
            rest = line[len("finding:"):].strip()
            parts = rest.split(None, 2)
            d = {"property": parts[0].split("=", 1)[1], "key": parts[1].split("=", 1)[1] if len(parts) > 1 and parts[1].startswith("key=") else "", "text": parts[2] if len(parts) > 2 else ""}
            findings.append(d)
        elif line.startswith("fixed:"):
            rest = line[len("fixed:"):].strip()
            parts = rest.split(None, 2)
            fixed.append({"property": parts[0].split("=", 1)[1], "commit": parts[1] if len(parts) > 1 else "", "text": parts[2] if len(parts) > 2 else ""})
    return findings, fixed


def write_evidence(prop, tier, seed, level, coverage, assumptions, wall_s, violations):
    if os.environ.get("VERIF_NO_EVIDENCE") == "1" or repo_dir() != "/repo":
        # sensitivity / seeded runs against scratch trees never touch the committed evidence
        return None
    os.makedirs(EVIDENCE, exist_ok=True)
    doc = {
        "property_id": prop,
        "tier": tier,
        "seed": int(seed),
        "level": level,
        "coverage": coverage,
        "assumptions": assumptions,
        "wall_s": round(float(wall_s), 2),
        "violations": int(violations),
    }
    p = os.path.join(EVIDENCE, prop + ".json")
    tmp = p + ".tmp"
    with open(tmp, "w") as f:
        json.dump(doc, f, indent=1, sort_keys=False)
        f.write("\n")
    os.replace(tmp, p)
    return p


def repo_state(repo=None):
    repo = repo or repo_dir()
    try:
        head = subprocess.run(["git", "-C", repo, "rev-parse", "HEAD"], stdout=subprocess.PIPE, stderr=subprocess.DEVNULL, text=True).stdout.strip()
        dirty = subprocess.run(["git", "-C", repo, "status", "--porcelain", "--untracked-files=no"], stdout=subprocess.PIPE, stderr=subprocess.DEVNULL, text=True).stdout.strip()
        return {"dir": repo, "head": head, "dirty": bool(dirty)}
    except Exception:
        return {"dir": repo}


def shortest_crashing_prefix(make_cmd, lo, hi, cwd=None, env=None):
    def dies(b):
        rc, _, _ = run_capture(make_cmd(lo, b), cwd=cwd, env=env)
        return rc not in (0, 1, 2)
    if not dies(hi):
        return None
    a, b = lo, hi  # invariant: dies(b); find the smallest such b
    while b - a > 1:
        mid = (a + b) // 2
        if dies(mid):
            b = mid
        else:
            a = mid
    return b


def run_engine_careful(binary, sub, seed, n, prop, label):
    """Single-threaded processes with the free-tracking allocator on for every trace: a double free is reported
    at the operation where it happens (and skipped, so the process heap stays healthy)."""
    from concurrent.futures import ThreadPoolExecutor
    per = (n + NCPU - 1) // NCPU
    os.makedirs(REPLAYS, exist_ok=True)

    base = 1_000_000_000  # disjoint from the run indices of the plain native phase

    def one(k):
        a, b = base + k * per, base + min((k + 1) * per, n)
        return run_capture([binary] + sub + ["run", "--careful", "--seed", str(seed), "--from", str(a), "--to", str(b), "--threads", "1", "--out", REPLAYS])
    all_stats, violations = [], []
    with ThreadPoolExecutor(max_workers=NCPU) as ex:
        for rc, out, err in ex.map(one, range(NCPU)):
            st, viols = parse_stats(out)
            if rc == 2:
                raise HarnessError("%s careful: harness error\n%s" % (label, err[-2000:]))
            if rc not in (0, 1) or st is None:
                # died anyway (e.g. use after free): fall back to the plain runner, which bisects
                return run_engine_native(binary, sub, seed, n, prop, label, threads=1, base=base, extra=["--careful"])
            all_stats.append(st)
            violations += viols
    merged = dict(all_stats[0])
    for k in ("runs", "distinct_traces", "distinct_shapes", "distinct_nontrivial"):
        merged[k] = sum(s[k] for s in all_stats)
    merged["distinct_transitions"] = max(s["distinct_transitions"] for s in all_stats)
    merged["counters"] = {}
    for s in all_stats:
        for k, v in s["counters"].items():
            merged["counters"][k] = merged["counters"].get(k, 0) + v
    return merged, violations[:1]


def bisect_crash(make_cmd, lo, hi, cwd=None, env=None):
    """A native engine process died (signal/abort) somewhere in run indices [lo, hi): find the first
    single run that still kills a fresh process. make_cmd(a, b) -> argv for runs [a, b), 1 thread."""
    def dies(a, b):
        rc, _, _ = run_capture(make_cmd(a, b), cwd=cwd, env=env)
        return rc not in (0, 1, 2)
    if not dies(lo, hi):
        return None
    while hi - lo > 1:
        mid = (lo + hi) // 2
        if dies(lo, mid):
            hi = mid
        elif dies(mid, hi):
            lo = mid
        else:
            return None  # not reproducible in isolation
    return lo


# ---- helpers shared by the Rust engines built on simcore::runner ------------------------------------

def run_engine_native(binary, sub, seed, n, prop, label, threads=None, base=0, extra=None):
    """Runs `binary <sub...> run` over run indices [0, n). Returns (stats|None, [violation lines]).
    A process that dies (abort in an extern "C" frame, SIGSEGV from a real double free, ...) is bisected
    down to the first run that kills a fresh process; that trace becomes the replay file."""
    threads = threads or NCPU
    extra = extra or []
    os.makedirs(REPLAYS, exist_ok=True)
    args = [binary] + sub + ["run"] + extra + ["--seed", str(seed), "--from", str(base), "--to", str(base + n), "--threads", str(threads), "--out", REPLAYS]
    rc, out, err = run_capture(args)
    if rc == 2:
        raise HarnessError("%s: harness error\n%s\n%s" % (label, out[-2000:], err[-2000:]))
    stats, viols = parse_stats(out)
    if rc in (0, 1) and stats is not None:
        return stats, viols
    mk = lambda a, c: [binary] + sub + ["run"] + extra + ["--seed", str(seed), "--from", str(a), "--to", str(c), "--threads", "1", "--out", "-"]
    first = bisect_crash(mk, base, base + n)
    if first is None:
        # cumulative heap corruption: no single trace kills a fresh process. Shrink to the shortest prefix
        # of the run range that still does, and report that range as the replay.
        hi = shortest_crashing_prefix(mk, base, base + n)
        if hi is None:
            raise HarnessError("%s died (rc=%s) but not even the whole range reproduces it single-threaded\n%s" % (label, rc, err[-3000:]))
        p = save_replay("%s-%s-crash-range-%d-%d.trace" % (prop, label, seed, hi),
                        "# range-replay engine=%s sub=%s seed=%d from=%d to=%d\n# property %s\n# oracle CRASH (the process dies while executing runs [%d,%d) in one thread; no single run isolates it: heap corruption accumulates)\n" % (label, " ".join(sub), seed, base, hi, prop, base, hi))
        return None, ["VIOLATION property=%s replay=%s oracle=CRASH engine=%s seed=%d runs=%d..%d" % (prop, p, label, seed, base, hi)]
    _, tr, _ = run_capture([binary] + sub + ["gen", "--seed", str(seed), "--run", str(first)])
    p = save_replay("%s-%s-crash-%d-%d.trace" % (prop, label, seed, first), tr + "# property %s\n# oracle CRASH (the process died while executing this trace)\n" % prop)
    return None, ["VIOLATION property=%s replay=%s oracle=CRASH engine=%s seed=%d run=%d" % (prop, p, label, seed, first)]


def run_engine_miri(package, sub, seed, shapes, procs, prop, label, repo=None):
    """Executes the first trace of each new shape under Miri, fanned out over `procs` interpreter
    processes (disjoint run-index ranges). Returns ([stats...], [violation lines])."""
    from concurrent.futures import ThreadPoolExecutor
    cmd, cwd = miri_cmd(package, repo)
    per = (shapes + procs - 1) // procs
    env = dict(ENV)
    env.pop("MIRIFLAGS", None)

    def one(k):
        # run indices of the Miri phase are disjoint from the native (0..) and careful (1e9..) phases, so the
        # distinct-case counts of the phases can be added
        lo = 2_000_000_000 + k * 10_000_000
        a = sub + ["run", "--seed", str(seed), "--from", str(lo), "--to", str(lo + 10_000_000), "--distinct-shapes", str(per), "--out", "-"]
        return run_capture(cmd + a, cwd=cwd, env=env)
    results = [one(0)]  # also builds, so the fan-out below does not race on the target dir
    if procs > 1:
        with ThreadPoolExecutor(max_workers=min(procs - 1, NCPU)) as ex:
            results += list(ex.map(one, range(1, procs)))
    all_stats, violations = [], []
    for k, (rc, out, err) in enumerate(results):
        stats, viols = parse_stats(out)
        if rc == 1 and viols:
            rep = extract_block(out, "REPLAY") or ""
            p = save_replay("%s-%s-miri-%d-%d.trace" % (prop, label, seed, k), rep)
            violations += [v.replace("replay=-", "replay=" + p) for v in viols]
        elif rc != 0 or stats is None:
            if "Undefined Behavior" in err or "memory leaked" in err:
                # find which trace: re-run sequentially is expensive; keep Miri's report as the replay artefact,
                # together with the exact command that reproduces it
                p = save_replay("%s-%s-miri-ub-%d-%d.txt" % (prop, label, seed, k),
                                "# Miri reported undefined behaviour / a leak.\n# reproduce: (cd %s && %s %s)\n%s" % (cwd, " ".join(cmd), " ".join(sub + ["run", "--seed", str(seed), "--from", str(2_000_000_000 + k * 10_000_000), "--to", str(2_000_000_000 + (k + 1) * 10_000_000), "--distinct-shapes", str(per), "--out", "-"]), err[-12000:]))
                violations.append("VIOLATION property=%s replay=%s oracle=MIRI-UB engine=%s seed=%d part=%d" % (prop, p, label, seed, k))
            else:
                raise HarnessError("miri run of %s failed (rc=%s)\n%s" % (label, rc, err[-4000:]))
        if stats:
            all_stats.append(stats)
    return all_stats, violations


def run_allocfault(binary, prop, seed, n):
    """write-sim's failing-allocation fault: one trace per process (a failed allocation inside the Rust-owned
    writer legitimately ends in Rust's out-of-memory abort, which is recognised and counted, never reported)."""
    from concurrent.futures import ThreadPoolExecutor

    def one(i):
        return i, run_capture([binary, "allocfault", "--seed", str(seed), "--run", str(i), "--prop", prop])
    stats = {"processes": n, "aborted_cleanly_on_alloc_failure": 0, "fault_not_reached": 0, "failure_reported_without_abort": 0, "failure_recovered_by_the_writer": 0}
    violations = []
    with ThreadPoolExecutor(max_workers=NCPU) as ex:
        for i, (rc, out, err) in ex.map(one, range(n)):
            if rc == 0:
                if "fired=0" in out:
                    stats["fault_not_reached"] += 1
                elif "recovered=1" in out:
                    stats["failure_recovered_by_the_writer"] += 1
                else:
                    stats["failure_reported_without_abort"] += 1
            elif rc in (134, -6) and "memory allocation of" in err:
                stats["aborted_cleanly_on_alloc_failure"] += 1
            elif rc == 1 and "VIOLATION property=" in out:
                if not violations:
                    p = save_replay("%s-allocfault-%d-%d.trace" % (prop, seed, i), (extract_block(out, "REPLAY") or "") + "# engine write-sim-allocfault\n")
                    violations += [l.replace("replay=-", "replay=" + p) for l in out.splitlines() if l.startswith("VIOLATION property=")]
            elif rc == 2:
                raise HarnessError("write-sim allocfault harness error: %s" % err[-1500:])
            else:
                if not violations:
                    _, tr, _ = run_capture([binary, "allocfault-gen", "--seed", str(seed), "--run", str(i)])
                    p = save_replay("%s-allocfault-crash-%d-%d.trace" % (prop, seed, i), "# write-sim trace v1\n# engine write-sim-allocfault\n# the process died (rc=%s) after an injected allocation failure; reproduce: write-sim allocfault --seed %d --run %d --prop %s\n# %s\n" % (rc, seed, i, prop, err.strip().splitlines()[0] if err.strip() else ""))
                    violations.append("VIOLATION property=%s replay=%s oracle=CRASH-AFTER-ALLOC-FAILURE engine=write-sim-allocfault seed=%d run=%d rc=%s" % (prop, p, seed, i, rc))
    return stats, violations


def private_work_dir(base, name):
    """A scratch directory under `base` that belongs to this process (two runs of one check must not share scratch
    space); removed at exit, and leftovers of processes that no longer exist are removed first."""
    import atexit
    os.makedirs(base, exist_ok=True)
    for d in os.listdir(base):
        m = re.match(re.escape(name) + r"-(\d+)$", d)
        if m and not os.path.exists("/proc/%s" % m.group(1)):
            shutil.rmtree(os.path.join(base, d), ignore_errors=True)
    w = os.path.join(base, "%s-%d" % (name, os.getpid()))
    shutil.rmtree(w, ignore_errors=True)
    os.makedirs(w)
    atexit.register(shutil.rmtree, w, ignore_errors=True)
    return w
