"""./check sensitivity <ID> [--only name] — deliberate property-breaking edits in a scratch worktree (DESIGN.md §2.5).

For every listed edit: apply it to a scratch git worktree of /repo (never to /repo itself), run the property's quick
check with VERIF_REPO_DIR pointing at the scratch tree, require exit 1 with a VIOLATION line, replay the reported
file (must fail again on the scratch tree and pass on /repo), revert. Also `./check seeded [ID]`: the same for the
independently written changes kept under /verif/seeded/<name>/patch.diff. The scratch tree and its build output are
removed at the end. Results go to /verif/reports/.
"""
import json
import os
import re
import shutil
import subprocess
import sys
import time

import common

SCRATCH = "/tmp/verif-scratch-sens-%d" % os.getpid()

# (name, file, old, new) — exact-string replacements; every edit compiles and keeps the pinned test suite green.
EDITS = {
    "C12": [
        ("sticky-flag-early-return-removed", "runtime/src/write.rs", "        if self.grow_failed {\n            return Ok(());\n        }\n        let needed_len", "        let needed_len"),
        ("grow-only-when-strictly-over-by-one", "runtime/src/write.rs", "if needed_len > self.cap {", "if needed_len > self.cap + 1 {"),
        ("fixed-writer-keeps-no-room-for-nul", "runtime/src/write.rs", "cap: buf_size - 1,", "cap: buf_size,"),
        ("get-bytes-ignores-failure-flag", "runtime/src/write.rs", "    if this.grow_failed {\n        core::ptr::null_mut()\n    } else {\n        this.buf\n    }", "    this.buf"),
        ("len-ignores-failure-flag", "runtime/src/write.rs", "    if this.grow_failed {\n        0\n    } else {\n        this.len\n    }", "    this.len"),
        ("macro-does-not-flush", "macro/src/lib.rs", "            quote! { #p.flush(); }", "            let _ = p;\n            quote! {}"),
        ("macro-flushes-before-the-body", "macro/src/lib.rs", "                let ret = #method_invocation(#(#all_params_names),*);\n                #(#write_flushes)*\n                ret #maybe_into", "                #(#write_flushes)*\n                let ret = #method_invocation(#(#all_params_names),*);\n                ret #maybe_into"),
        ("cpp-grow-does-not-update-buf", "tool/templates/cpp/runtime.hpp.jinja", "  w->cap = string->length();\n  w->buf = &(*string)[0];", "  w->cap = string->length();"),
        # (not an edit: `_flush` resizing to w->cap instead of w->len is an equivalent change — write_str requests exactly
        #  len + chunk from `_grow`, which makes cap == requested, so len == cap whenever `_flush` runs)
        ("c-header-swaps-len-and-cap", "tool/templates/c/capi.h.jinja", "    size_t len;\n    size_t cap;", "    size_t cap;\n    size_t len;"),
        ("partial-chunk-written-before-failed-grow", "runtime/src/write.rs", "            let success = (self.grow)(self, needed_len);\n            if !success {\n                self.grow_failed = true;\n                return Ok(());\n            }",
         "            let success = (self.grow)(self, needed_len);\n            if !success {\n                self.grow_failed = true;\n                let fits = self.cap - self.len;\n                unsafe { ptr::copy_nonoverlapping(s.as_bytes().as_ptr(), self.buf.add(self.len), fits) };\n                self.len = self.cap;\n                return Ok(());\n            }"),
    ],
    "C03": [
        ("revert-double-drop-fix", "runtime/src/result.rs", "    fn from(result: DiplomatResult<T, E>) -> Result<T, E> {\n        // The payload is moved out below; `DiplomatResult`'s own `Drop` must not drop it again\n        let mut result = ManuallyDrop::new(result);", "    fn from(mut result: DiplomatResult<T, E>) -> Result<T, E> {"),
        ("owned-slice-drop-without-null-check", "runtime/src/slices.rs", "impl<T> Drop for DiplomatOwnedSlice<T> {\n    fn drop(&mut self) {\n        if !self.ptr.is_null() {", "impl<T> Drop for DiplomatOwnedSlice<T> {\n    fn drop(&mut self) {\n        if self.len == 0 || !self.ptr.is_null() {"),
        ("owned-slice-into-box-without-manuallydrop", "runtime/src/slices.rs", "    fn from(x: DiplomatOwnedSlice<T>) -> Self {\n        let x = ManuallyDrop::new(x);", "    fn from(x: DiplomatOwnedSlice<T>) -> Self {"),
        ("callback-destructor-never-runs", "runtime/src/callback.rs", "        if let Some(destructor) = self.destructor {\n            unsafe {\n                (destructor)(self.data);\n            }\n        }", "        let _ = self.destructor;"),
        ("callback-destructor-runs-twice", "runtime/src/callback.rs", "            unsafe {\n                (destructor)(self.data);\n            }", "            unsafe {\n                (destructor)(self.data);\n                if core::mem::size_of::<ReturnType>() == 4 {\n                    (destructor)(self.data);\n                }\n            }"),
        ("destroy-takes-a-reference", "macro/src/lib.rs", "extern \"C\" fn #destroy_ident #lifetime_defs(this: Box<#type_ident #lifetimes>) {}", "extern \"C\" fn #destroy_ident #lifetime_defs(this: &#type_ident #lifetimes) { let _ = this; }"),
        ("cpp-operator-delete-is-empty", "tool/templates/cpp/opaque_impl.h.jinja", "\t{{dtor_name}}(reinterpret_cast<{{mut_cptr}}>(ptr));", "\t(void)ptr;"),
        ("result-clone-aliases-payload", "runtime/src/result.rs", "                Ok((*self.value.ok).clone()).into()", "                Ok(core::ptr::read(&*self.value.ok)).into()"),
        ("trait-object-destructor-skipped", "macro/src/lib.rs", "                    if let Some(destructor) = self.vtable.destructor {\n                        unsafe {\n                            (destructor)(self.data);\n                        }\n                    }", "                    let _ = self.vtable.destructor;"),
    ],
    "C14": [
        ("c-header-includes-from-hashset", "tool/src/c/header.rs", "use std::collections::BTreeSet;", "use std::collections::HashSet as BTreeSet;"),
        ("env-modules-in-a-hashmap", "core/src/environment.rs", "use std::collections::BTreeMap;", "use std::collections::HashMap as BTreeMap;"),
        ("generated-at-timestamp-in-c-runtime", "tool/src/c/mod.rs", "    files.add_file(\"diplomat_runtime.h\".into(), Runtime.to_string());", "    files.add_file(\"diplomat_runtime.h\".into(), format!(\"// generated at {:?}\\n{}\", std::time::SystemTime::now().duration_since(std::time::UNIX_EPOCH).map(|d| d.as_secs()).unwrap_or(0), Runtime));"),
    ],
    "C04": [
        # (dropping the implied &'a T<'b> bound in core/src/ast/lifetimes.rs is not listed: lowering then rejects the module
        #  itself ("Method should explicitly include this lifetime bound"), so nothing unsafe is generated)
        ("js-first-incoming-edge-omitted", "tool/templates/js/method.js.jinja", "        {%- for incoming_edge in lifetime_info.incoming_edges.iter() %}\n        {%- if !loop.first %}, {% endif -%} {{self::display_lifetime_edge(incoming_edge)}}\n        {%- endfor -%}", "        {%- for incoming_edge in lifetime_info.incoming_edges.iter().skip(1) %}\n        {%- if !loop.first %}, {% endif -%} {{self::display_lifetime_edge(incoming_edge)}}\n        {%- endfor -%}"),
        ("longer-shorter-swapped", "core/src/hir/methods/borrowing_param.rs", "                            .all_longer_lifetimes(lt)\n                            .collect(),", "                            .all_shorter_lifetimes(lt)\n                            .collect(),"),
        ("js-registers-borrowed-returns-for-destruction", "tool/templates/js/opaque.js.jinja", "        if (this.#selfEdge.length === 0) {", "        if (this.#selfEdge.length !== 0 || true) {"),
    ],
}


def sh(cmd, cwd=None, env=None, check=True):
    r = subprocess.run(cmd, cwd=cwd, env=env or common.ENV, stdout=subprocess.PIPE, stderr=subprocess.STDOUT, text=True)
    if check and r.returncode != 0:
        raise common.HarnessError("command failed: %s\n%s" % (" ".join(cmd), r.stdout[-3000:]))
    return r


def make_scratch():
    drop_scratch()
    sh(["git", "-C", "/repo", "worktree", "add", "--detach", SCRATCH, "HEAD"])
    return SCRATCH


def drop_scratch():
    subprocess.run(["git", "-C", "/repo", "worktree", "remove", "--force", SCRATCH], stdout=subprocess.DEVNULL, stderr=subprocess.DEVNULL)
    shutil.rmtree(SCRATCH, ignore_errors=True)
    subprocess.run(["git", "-C", "/repo", "worktree", "prune"], stdout=subprocess.DEVNULL, stderr=subprocess.DEVNULL)
    shutil.rmtree(os.path.join(common.BUILD, common.build_key(SCRATCH)), ignore_errors=True)


def run_check(prop, repo, seed, replay=None):
    env = dict(os.environ)
    env["VERIF_REPO_DIR"] = repo
    env["VERIF_SEED"] = str(seed)
    env["VERIF_NO_EVIDENCE"] = "1"
    cmd = [os.path.join(common.VERIF, "check"), prop, "--tier", "quick"] if replay is None else [os.path.join(common.VERIF, "check"), "replay", replay]
    t0 = time.time()
    r = subprocess.run(cmd, cwd=common.VERIF, env=env, stdout=subprocess.PIPE, stderr=subprocess.STDOUT, text=True)
    viol = [l for l in r.stdout.splitlines() if l.startswith("VIOLATION property=")]
    return r.returncode, viol, r.stdout, time.time() - t0


def tests_pass(repo):
    r = subprocess.run(["cargo", "test", "--workspace", "--no-fail-fast", "--offline"], cwd=repo, env=common.ENV, stdout=subprocess.PIPE, stderr=subprocess.STDOUT, text=True)
    passed = sum(int(m) for m in re.findall(r"test result: ok\. (\d+) passed", r.stdout))
    return r.returncode == 0, passed


def evaluate(prop, name, repo, seed, with_tests):
    res = {"property": prop, "change": name}
    if with_tests:
        ok, n = tests_pass(repo)
        res["existing_tests_pass"] = ok
        res["existing_tests_passed_count"] = n
    rc, viol, out, wall = run_check(prop, repo, seed)
    res.update({"check_rc": rc, "wall_s": round(wall, 1), "violation": viol[0] if viol else None})
    if rc == 2:
        res["harness_error"] = out[-1500:]
    if rc == 1 and viol:
        m = re.search(r"replay=(\S+)", viol[0])
        if m and os.path.exists(m.group(1)):
            keep = os.path.join(common.VERIF, "reports", "replays")
            os.makedirs(keep, exist_ok=True)
            kept = os.path.join(keep, "%s-%s%s" % (prop, name, os.path.splitext(m.group(1))[1]))
            shutil.copy(m.group(1), kept.replace(os.path.splitext(kept)[1], "") + "-" + os.path.basename(m.group(1)))
            kept = kept.replace(os.path.splitext(kept)[1], "") + "-" + os.path.basename(m.group(1))
            rc2, v2, _, _ = run_check(prop, repo, seed, replay=kept)
            rc3, v3, _, _ = run_check(prop, "/repo", seed, replay=kept)
            res["replay_file"] = os.path.relpath(kept, common.VERIF)
            res["replay_fails_on_changed_tree"] = rc2 == 1
            res["replay_passes_on_unchanged_tree"] = rc3 == 0
    res["detected"] = rc == 1 and bool(viol)
    return res


def main(pos, opts, seed, seeded=False):
    os.makedirs(os.path.join(common.VERIF, "reports"), exist_ok=True)
    props = [pos[0]] if pos else sorted(EDITS)
    results = []
    scratch = make_scratch()
    try:
        for prop in props:
            if seeded:
                base = os.path.join(common.VERIF, "seeded")
                items = []
                for d in sorted(os.listdir(base)) if os.path.isdir(base) else []:
                    meta_p = os.path.join(base, d, "meta.json")
                    if os.path.exists(meta_p) and json.load(open(meta_p)).get("property") == prop:
                        items.append((d, os.path.join(base, d, "patch.diff")))
            else:
                items = [(e[0], e) for e in EDITS.get(prop, [])]
            for name, item in items:
                if opts.get("only") and opts["only"] != name:
                    continue
                if opts.get("match") and not re.search(opts["match"], name):
                    continue
                sh(["git", "-C", scratch, "checkout", "--", "."])
                if seeded:
                    sh(["git", "-C", scratch, "apply", item])
                else:
                    _, rel, old, new = item
                    p = os.path.join(scratch, rel)
                    s = open(p).read()
                    if old not in s:
                        raise common.HarnessError("sensitivity edit %s no longer applies to %s" % (name, rel))
                    open(p, "w").write(s.replace(old, new, 1))
                common.log("[sensitivity] %s / %s ..." % (prop, name))
                res = evaluate(prop, name, scratch, seed, with_tests=opts.get("tests") == "1")
                common.log("[sensitivity] %s / %s: detected=%s rc=%s (%.0fs) %s" % (prop, name, res["detected"], res["check_rc"], res["wall_s"], (res.get("violation") or "")[:160]))
                results.append(res)
    finally:
        drop_scratch()
    tag = "" if seed == common.DEFAULT_SEED else "-seed%d" % seed
    if opts.get("only"):
        tag += "-only-" + opts["only"]
    if opts.get("match"):
        tag += "-only-" + re.sub(r"[^A-Za-z0-9]+", "_", opts["match"])
    out = os.path.join(common.VERIF, "reports", ("seeded" if seeded else "sensitivity") + "-" + ("all" if not pos else pos[0]) + tag + ".json")
    json.dump({"seed": seed, "results": results}, open(out, "w"), indent=1)
    missed = [r for r in results if not r["detected"]]
    common.log("%d of %d changes detected; report: %s" % (len(results) - len(missed), len(results), out))
    return 0 if not missed else 3


def benign(pos, opts, seed):
    """./check benign [ID] [--only name] [--all 1] — behaviour-preserving changes to /repo written by independent
    sub-agents (benign/<name>/patch.diff): the quick check of the change's property (with --all 1: of all four claimed
    properties) must stay silent on the changed tree. Report: reports/benign[-<ID>].json; exit 2 if any check alarmed."""
    base = os.path.join(common.VERIF, "benign")
    results, bad = [], []
    scratch = make_scratch()
    try:
        for d in sorted(os.listdir(base)) if os.path.isdir(base) else []:
            meta_p = os.path.join(base, d, "meta.json")
            if not os.path.exists(meta_p):
                continue
            meta = json.load(open(meta_p))
            if pos and meta.get("property") != pos[0]:
                continue
            if opts.get("only") and opts["only"] != d:
                continue
            if opts.get("match") and not re.search(opts["match"], d):
                continue
            sh(["git", "-C", scratch, "checkout", "--", "."])
            sh(["git", "-C", scratch, "clean", "-fdq", "-e", "target"])
            sh(["git", "-C", scratch, "apply", os.path.join(base, d, "patch.diff")])
            props = ["C03", "C04", "C12", "C14"] if opts.get("all") == "1" else [meta["property"]]
            if opts.get("tests") == "1":
                ok, n = tests_pass(scratch)
                results.append({"change": d, "existing_tests_pass": ok, "existing_tests_passed_count": n})
                common.log("[benign] %s: existing tests pass=%s (%d)" % (d, ok, n))
                if not ok:
                    bad.append((d, "tests"))
            for prop in props:
                rc, viol, out, wall = run_check(prop, scratch, seed)
                res = {"change": d, "written_for": meta["property"], "checked": prop, "check_rc": rc, "violation": viol[0] if viol else None, "wall_s": round(wall, 1)}
                if rc != 0 or viol:
                    res["tail"] = out[-2500:]
                    bad.append((d, prop))
                    m = re.search(r"replay=(\S+)", viol[0]) if viol else None
                    if m and os.path.exists(m.group(1)):
                        keep = os.path.join(common.VERIF, "reports", "replays")
                        os.makedirs(keep, exist_ok=True)
                        shutil.copy(m.group(1), os.path.join(keep, "benign-%s-%s" % (d, os.path.basename(m.group(1)))))
                results.append(res)
                common.log("[benign] %s / %s: rc=%d (%.0fs) %s" % (d, prop, rc, wall, (viol[0] if viol else "")[:160]))
    finally:
        drop_scratch()
    tag = "" if seed == common.DEFAULT_SEED else "-seed%d" % seed
    if opts.get("only"):
        tag += "-only-" + opts["only"]
    if opts.get("match"):
        tag += "-part-" + re.sub(r"[^A-Za-z0-9]+", "_", opts["match"])
    out = os.path.join(common.VERIF, "reports", "benign-" + ("all" if not pos else pos[0]) + tag + ".json")
    json.dump({"seed": seed, "all_properties_checked": opts.get("all") == "1", "results": results}, open(out, "w"), indent=1)
    common.log("%d of %d runs fine; report: %s" % (len(results) - len(bad), len(results), out))
    if bad:
        print("HARNESS-ERROR: a check alarmed on a behaviour-preserving change: %s" % bad, file=sys.stderr)
        return 2
    return 0
