"""C03 — values crossing the boundary are destroyed exactly once; no memory errors (`own-sim`, DESIGN.md §3)."""
import os
import time

from common import (NCPU, REPLAYS, HarnessError, cargo_build, known_findings, log, repo_state, run_allocfault, run_capture, run_engine_careful, run_engine_miri,
                    run_engine_native, write_evidence)

PROP = "C03"

BUDGET = {
    "quick": {"l1": 2_000_000, "l2": 1_000_000, "l1_miri": 192, "l2_miri": 96, "miri_procs": 16, "cpp": 40000, "allocfault": 600, "careful": 300_000},
    "thorough": {"l1": 200_000_000, "l2": 100_000_000, "l1_miri": 2000, "l2_miri": 1000, "miri_procs": 16, "cpp": 4_000_000, "allocfault": 30000, "careful": 20_000_000},
}


def check(tier, seed):
    t0 = time.time()
    b = BUDGET[tier]
    bindir = cargo_build(["own-sim"])
    binary = os.path.join(bindir, "own-sim")
    phases, violations, counters, samples = [], [], {}, []
    cpp_known = []
    totals = {"evaluations": 0, "distinct_nontrivial": 0}

    def absorb(name, stats, wall):
        phases.append({"phase": name, "runs": stats["runs"], "distinct_traces": stats["distinct_traces"], "distinct_shapes": stats["distinct_shapes"],
                       "distinct_nontrivial": stats["distinct_nontrivial"], "distinct_op_transitions": stats["distinct_transitions"],
                       "event_log_digest": stats["log_digest"], "wall_s": round(wall, 2)})
        for k, v in stats["counters"].items():
            counters[name.split("-")[0] + ":" + k] = counters.get(name.split("-")[0] + ":" + k, 0) + v
        totals["evaluations"] += stats["runs"]
        totals["distinct_nontrivial"] += stats["distinct_nontrivial"]
        for s in stats["samples"][:1]:
            if len(samples) < 6:
                samples.append({"phase": name, "trace": s})

    # careful phases first: free-tracking allocator, one thread per process, double frees pinpointed
    for layer, sub, n in (("L1", ["l1"], b["careful"]), ("L2C", ["l2"], b["careful"])):
        if violations:
            break
        t1 = time.time()
        stats, viols = run_engine_careful(binary, sub, seed, n, PROP, "own-" + sub[0])
        if stats:
            absorb(layer + "-careful", stats, time.time() - t1)
        violations += viols
        log("[C03] %s careful (free-tracking allocator): %s runs, %d violations (%.1fs)" % (layer, stats["runs"] if stats else "?", len(viols), time.time() - t1))

    for layer, sub, n in (("L1", ["l1"], b["l1"]), ("L2C", ["l2"], b["l2"])):
        if violations:
            break
        t1 = time.time()
        stats, viols = run_engine_native(binary, sub, seed, n, PROP, "own-" + sub[0])
        if stats:
            absorb(layer + "-native", stats, time.time() - t1)
        violations += viols
        log("[C03] %s native: %s runs, %d violations (%.1fs)" % (layer, stats["runs"] if stats else "?", len(viols), time.time() - t1))

    for layer, sub, n in (("L1", ["l1"], b["l1_miri"]), ("L2C", ["l2"], b["l2_miri"])):
        if violations:
            break
        t1 = time.time()
        sts, viols = run_engine_miri("own-sim", sub, seed, n, b["miri_procs"], PROP, "own-" + sub[0])
        for i, st in enumerate(sts):
            absorb("%s-miri-%d" % (layer, i), st, 0)
        violations += viols
        log("[C03] %s miri: %d shape-distinct traces, %d violations (%.1fs)" % (layer, sum(s["runs"] for s in sts), len(viols), time.time() - t1))

    # ---- failing allocations inside the Rust-owned writer (create / failed growth / destroy): memory oracles only
    allocfault = None
    if not violations:
        t1 = time.time()
        wbin = os.path.join(cargo_build(["write-sim"]), "write-sim")
        allocfault, viols = run_allocfault(wbin, PROP, seed, b["allocfault"])
        violations += viols
        totals["evaluations"] += allocfault["processes"]
        log("[C03] failing allocations: %s, %d violations (%.1fs)" % (allocfault, len(viols), time.time() - t1))

    cpp_cov = None
    if not violations:
        try:
            import c03_cpp
        except ImportError:
            c03_cpp = None
        if c03_cpp is not None:
            t1 = time.time()
            cpp_cov, viols = c03_cpp.run(tier, seed, b["cpp"])
            violations += viols
            cpp_known = cpp_cov.pop("known_lines", [])
            totals["evaluations"] += cpp_cov.get("runs", 0)
            totals["distinct_nontrivial"] += cpp_cov.get("distinct_nontrivial", 0)
            log("[C03] L2-C++ (ASan): %d traces, %d violations (%.1fs)" % (cpp_cov.get("runs", 0), len(viols), time.time() - t1))

    # ---- known findings / fixed entries
    findings, fixed = known_findings()
    reported, known_lines = [], list(cpp_known)
    for v in violations:
        hit = None
        for f in findings:
            if f["property"] == PROP and f["key"] and f["key"] in v:
                hit = f
        if hit:
            known_lines.append("KNOWN-FINDING: property=%s %s" % (PROP, hit["text"]))
        else:
            reported.append(v)

    wall = time.time() - t0
    cov = {
        "evaluations": totals["evaluations"],
        "distinct_nontrivial": totals["distinct_nontrivial"],
        "rule": ("A case is one ownership history (trace): L1 = operations make/convert/clone/peek/mutate/bitwise-roundtrip/call/drop/swap over up to 6 slots holding the runtime's FFI-safe owning types "
                 "(DiplomatResult/Option, Result/Option, DiplomatOwnedSlice, Box<[T]>, DiplomatOwnedUTF8StrSlice, Box<str>, DiplomatCallback) instantiated over payloads {heap token, inline token, u64, (), Box<[heap token]>}; "
                 "L2C = calls of the macro-generated extern \"C\" API of the verification bridge (create on either arm, borrow, views, owned slices incl. NULL+0, callbacks with/without destructor, stored callbacks, trait objects, "
                 "optional/result values, write-out methods, destroy) over up to 6 handles; L2C++ = the same through the generated C++ wrappers under ASan. Traces are drawn from xoshiro128**(VERIF_SEED, run) with a per-run swarm configuration. "
                 "distinct = FNV-64 of the trace text without its seed/run header; non-trivial = executed a conversion/clone/roundtrip/call/mutation (L1) or at least two API calls (L2). Counts are summed over phases."),
        "samples": samples,
        "exhaustive": False,
        "phases": phases,
        "fault_kinds_fired": {k: v for k, v in counters.items() if ":fault_" in k},
        "reach_probes": {k: v for k, v in counters.items() if ":probe_" in k or k.endswith("trait_object_passed") or k.endswith("callback_with_destructor")},
        "logical_steps_simulated": sum(v for k, v in counters.items() if k.endswith(":ops_executed")),
        "ops_skipped_by_executor": sum(v for k, v in counters.items() if k.endswith(":ops_skipped")),
        "runs_per_hour": int(totals["evaluations"] / max(wall, 1e-9) * 3600),
        "cpp_layer": cpp_cov,
        "failing_allocation_fault": allocfault,
        "oracles": ["O1 exactly-once (ledger: drop of a non-live id)", "O2 conservation (model live set == ledger live set after every operation)", "O3 no leak at end of history",
                    "O4 memory safety (Miri for Rust layers, ASan/UBSan/LSan for the C++ layer)", "O5 value integrity through safe views"],
        "components": {
            "real": ["runtime/src/{result,slices,callback,write}.rs", "macro/src/lib.rs expansion of sim/rs/vbridge (real proc macro, real extern \"C\" bodies, T_destroy, parameter conversions, trait-object struct + Drop)",
                     "diplomat-tool cpp output + diplomat_runtime.hpp (L2C++)"],
            "stub": ["user method bodies (vbridge)", "the foreign caller (trace interpreter)", "callback/trait-object data owned by the caller"],
        },
        "known_findings_matched": known_lines,
        "fixed_entries": ["%s %s" % (f["commit"], f["text"]) for f in fixed if f["property"] == PROP],
        "tree_under_test": repo_state(),
    }
    assumptions = [
        "the simulated caller obeys the documented FFI contract: never uses a destroyed handle, never destroys a lender before its views, allocates owned slices with diplomat_alloc (NULL+0 for empty), never calls &mut methods on an object that is lent out",
        "one hand-written all-shapes bridge samples the 'programs' quantifier; generated bridges are not used for this property",
        "allocation failure inside Rust aborts and is not simulated; C++ exceptions never cross Rust frames",
    ]
    write_evidence(PROP, tier, seed, "exploration", cov, assumptions, wall, len(reported))
    for l in known_lines:
        print(l, flush=True)
    for v in reported:
        print(v, flush=True)
    return 1 if reported else 0


def replay(path):
    bindir = cargo_build(["own-sim"])
    text = open(path).read()
    if text.startswith("# range-replay"):
        import re
        m = re.match(r"# range-replay engine=(\S+) sub=(\S+) seed=(\d+) from=(\d+) to=(\d+)", text)
        rc, out, err = run_capture([os.path.join(bindir, "own-sim"), m.group(2), "run", "--seed", m.group(3), "--from", m.group(4), "--to", m.group(5), "--threads", "1", "--out", "-"])
        if rc not in (0, 1, 2):
            print(err[-600:])
            print("VIOLATION property=%s replay=%s oracle=CRASH (the process died again, rc=%d)" % (PROP, path, rc))
            return 1
        print("REPLAY-OK the range ran to completion (rc=%d)" % rc)
        return 0 if rc == 0 else rc
    if "engine write-sim-allocfault" in text:
        wbin = os.path.join(cargo_build(["write-sim"]), "write-sim")
        rc, out, err = run_capture([wbin, "allocfault", "--replay", path, "--prop", PROP])
        print(out, end="")
        if rc in (134, -6) and "memory allocation of" in err:
            print("REPLAY-OK the injected allocation failure ended in Rust's out-of-memory abort (no memory error)")
            return 0
        return rc if rc in (0, 1, 2) else 1
    if path.endswith(".txt") and "reproduce:" in text:
        # a Miri report: the same interpreter run is repeated against the tree under test (same package, same
        # seed, run range and shape budget; Miri is deterministic), so the file replays like a trace does
        import re
        import common
        m = re.search(r"# reproduce: \(cd \S+ && cargo \+nightly miri run .*? -p (\S+) .*? -- (.*)\)", text)
        if not m:
            print(text[:3000])
            return 1
        cmd, cwd = common.miri_cmd(m.group(1))
        env = dict(common.ENV)
        env.pop("MIRIFLAGS", None)
        rc, out, err = run_capture(cmd + m.group(2).split(), cwd=cwd, env=env)
        if "Undefined Behavior" in err or "memory leaked" in err:
            print(err[-3000:])
            print("VIOLATION property=%s replay=%s oracle=MIRI-UB" % (PROP, path))
            return 1
        if rc == 1 and "VIOLATION property=" in out:
            print(out[-3000:])
            return 1
        if rc != 0:
            print(err[-3000:])
            return 2
        print("REPLAY-OK Miri ran the recorded range without reporting undefined behaviour or a leak")
        return 0
    if "cpp-trace" in text.split("\n", 1)[0]:
        import c03_cpp
        return c03_cpp.replay(path)
    sub = "l1" if "own-sim L1" in text else ("w2" if "(write-l2)" in text else "l2")
    rc, out, err = run_capture([os.path.join(bindir, "own-sim"), sub, "replay", path])
    print(out, end="")
    if rc not in (0, 1, 2):
        print("VIOLATION property=%s replay=%s oracle=CRASH (process died, rc=%d)" % ("C12" if sub == "w2" else PROP, path, rc))
        return 1
    return rc
