#!/usr/bin/env python3
"""Regenerates the two result tables of DESIGN.md §10.4 from /verif/reports/{seeded,sensitivity}-*.json and /verif/seeded/*/meta.json."""
import glob
import json
import os
import re

VERIF = os.path.dirname(os.path.dirname(os.path.abspath(__file__)))


def oracle_of(v):
    if not v:
        return ""
    m = re.search(r"oracle=(\S+)", v)
    e = re.search(r"engine=(\S+)", v)
    b = re.search(r"backend=(\S+)", v)
    return (m.group(1) if m else "?") + (" (" + e.group(1) + ")" if e else "") + (" [" + b.group(1) + "]" if b else "")


def rows(kind):
    out = {}
    for f in sorted(glob.glob(os.path.join(VERIF, "reports", kind + "-*.json"))):
        for r in json.load(open(f))["results"]:
            out[(r["property"], r["change"])] = r
    return out


def main():
    s = open(os.path.join(VERIF, "DESIGN.md")).read()
    seeded = rows("seeded")
    lines = ["| change (`seeded/<name>`) | property | what it is / what it needs | caught by (quick check) | replay fails on changed / passes on unchanged tree |", "|---|---|---|---|---|"]
    for d in sorted(glob.glob(os.path.join(VERIF, "seeded", "*", "meta.json"))):
        m = json.load(open(d))
        r = seeded.get((m["property"], m["name"]))
        caught = "not run" if r is None else (oracle_of(r.get("violation")) if r["detected"] else "**missed**")
        rep = "" if r is None or not r["detected"] else "%s / %s" % ("yes" if r.get("replay_fails_on_changed_tree") else "no", "yes" if r.get("replay_passes_on_unchanged_tree") else "no")
        lines.append("| %s | %s | %s Needs: %s | %s | %s |" % (m["name"], m["property"], m["summary"].replace("|", "/"), m["needs_to_manifest"].replace("|", "/"), caught, rep))
    s = re.sub(r"(<!-- BEGIN seeded-table[^>]*-->\n).*?(<!-- END seeded-table -->)", lambda mm: mm.group(1) + "\n".join(lines) + "\n" + mm.group(2), s, flags=re.S)
    sens = rows("sensitivity")
    lines = ["| edit (`lib/sensitivity.py`) | property | caught by (quick check) | replay fails on changed / passes on unchanged tree |", "|---|---|---|---|"]
    for (prop, name), r in sorted(sens.items()):
        caught = oracle_of(r.get("violation")) if r["detected"] else "**missed**"
        rep = "" if not r["detected"] else "%s / %s" % ("yes" if r.get("replay_fails_on_changed_tree") else "no", "yes" if r.get("replay_passes_on_unchanged_tree") else "no")
        lines.append("| %s | %s | %s | %s |" % (name, prop, caught, rep))
    s = re.sub(r"(<!-- BEGIN sensitivity-table[^>]*-->\n).*?(<!-- END sensitivity-table -->)", lambda mm: mm.group(1) + "\n".join(lines) + "\n" + mm.group(2), s, flags=re.S)
    open(os.path.join(VERIF, "DESIGN.md"), "w").write(s)
    print("tables regenerated: %d seeded, %d sensitivity rows" % (len(glob.glob(os.path.join(VERIF, "seeded", "*", "meta.json"))), len(sens)))


if __name__ == "__main__":
    main()
