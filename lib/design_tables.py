#!/usr/bin/env python3
"""Regenerates the two result tables of DESIGN.md §10.4 from /verif/reports/{seeded,sensitivity}-*.json and /verif/seeded/*/meta.json."""
import glob
import json
import os
import re

VERIF = os.path.dirname(os.path.dirname(os.path.abspath(__file__)))


def oracle_of(v):
    if not v:
        return ""
    m = re.search(r"oracle=(\S+)", v)
    e = re.search(r"engine=(\S+)", v)
    b = re.search(r"backend=(\S+)", v)
    return (m.group(1) if m else "?") + (" (" + e.group(1) + ")" if e else "") + (" [" + b.group(1) + "]" if b else "")


def rows(kind):
    """default-seed results (files without a -seed tag); later files win"""
    out = {}
    for f in sorted(glob.glob(os.path.join(VERIF, "reports", kind + "-*.json"))):
        if "-seed" in os.path.basename(f) or "-only-" in os.path.basename(f):
            continue
        for r in json.load(open(f))["results"]:
            out[(r["property"], r["change"])] = r
    return out


def other_seeds(kind):
    """(property, change) -> list of (seed, detected) from the -seed<N> reports"""
    out = {}
    for f in sorted(glob.glob(os.path.join(VERIF, "reports", kind + "-*-seed*.json"))):
        d = json.load(open(f))
        for r in d["results"]:
            out.setdefault((r["property"], r["change"]), []).append((d["seed"], r["detected"]))
    return out


def main():
    s = open(os.path.join(VERIF, "DESIGN.md")).read()
    seeded = rows("seeded")
    others = other_seeds("seeded")
    lines = ["| change (`seeded/<name>`) | property | what it is / what it needs | caught by (quick check, default seed) | replay fails on changed / passes on unchanged tree | other seeds (quick) |", "|---|---|---|---|---|---|"]
    for d in sorted(glob.glob(os.path.join(VERIF, "seeded", "*", "meta.json"))):
        m = json.load(open(d))
        r = seeded.get((m["property"], m["name"]))
        caught = "not run" if r is None else (oracle_of(r.get("violation")) if r["detected"] else "**missed**")
        rep = "" if r is None or not r["detected"] else "%s / %s" % ("yes" if r.get("replay_fails_on_changed_tree") else "no", "yes" if r.get("replay_passes_on_unchanged_tree") else "no")
        os_ = others.get((m["property"], m["name"]), [])
        oth = "%d of %d" % (sum(1 for _, d_ in os_ if d_), len(os_)) if os_ else ""
        lines.append("| %s | %s | %s Needs: %s | %s | %s | %s |" % (m["name"], m["property"], m["summary"].replace("|", "/"), m["needs_to_manifest"].replace("|", "/"), caught, rep, oth))
    s = re.sub(r"(<!-- BEGIN seeded-table[^>]*-->\n).*?(<!-- END seeded-table -->)", lambda mm: mm.group(1) + "\n".join(lines) + "\n" + mm.group(2), s, flags=re.S)
    sens = rows("sensitivity")
    lines = ["| edit (`lib/sensitivity.py`) | property | caught by (quick check) | replay fails on changed / passes on unchanged tree |", "|---|---|---|---|"]
    for (prop, name), r in sorted(sens.items()):
        caught = oracle_of(r.get("violation")) if r["detected"] else "**missed**"
        rep = "" if not r["detected"] else "%s / %s" % ("yes" if r.get("replay_fails_on_changed_tree") else "no", "yes" if r.get("replay_passes_on_unchanged_tree") else "no")
        lines.append("| %s | %s | %s | %s |" % (name, prop, caught, rep))
    s = re.sub(r"(<!-- BEGIN sensitivity-table[^>]*-->\n).*?(<!-- END sensitivity-table -->)", lambda mm: mm.group(1) + "\n".join(lines) + "\n" + mm.group(2), s, flags=re.S)
    # behaviour-preserving changes: one row per change, the four quick checks' exit codes
    ben = {}
    for f in sorted(glob.glob(os.path.join(VERIF, "reports", "benign-*.json"))):
        if "-seed" in os.path.basename(f) or "-only-" in os.path.basename(f) or "before-fix" in os.path.basename(f):
            continue
        for r in json.load(open(f))["results"]:
            if "checked" in r:
                ben.setdefault(r["change"], {})[r["checked"]] = r["check_rc"]
            else:
                ben.setdefault(r["change"], {})["tests"] = r["existing_tests_pass"]
    lines = ["| change (`benign/<name>`) | written against | what it changes | existing tests | C03 | C04 | C12 | C14 |", "|---|---|---|---|---|---|---|---|"]
    for d in sorted(glob.glob(os.path.join(VERIF, "benign", "*", "meta.json"))):
        m = json.load(open(d))
        b = ben.get(m["name"], {})
        cell = lambda k: {None: "not run", 0: "silent", 1: "**ALARM**", 2: "**harness error**"}.get(b.get(k), str(b.get(k)))
        lines.append("| %s | %s | %s | %s | %s | %s | %s | %s |" % (m["name"], m["property"], m.get("summary", "").replace("|", "/"), {None: "not run", True: "pass", False: "**fail**"}[b.get("tests")], cell("C03"), cell("C04"), cell("C12"), cell("C14")))
    s = re.sub(r"(<!-- BEGIN benign-table[^>]*-->\n).*?(<!-- END benign-table -->)", lambda mm: mm.group(1) + "\n".join(lines) + "\n" + mm.group(2), s, flags=re.S)
    open(os.path.join(VERIF, "DESIGN.md"), "w").write(s)
    print("tables regenerated: %d seeded, %d sensitivity rows" % (len(glob.glob(os.path.join(VERIF, "seeded", "*", "meta.json"))), len(sens)))


if __name__ == "__main__":
    main()
