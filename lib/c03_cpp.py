"""L2-C++ layer (DESIGN.md §3.4 / §5 I9): trace interpreter over the C++ wrappers `diplomat-tool cpp`
generates for sim/rs/vbridge, linked with the macro-built staticlib, under ASan + UBSan + LSan."""
import os
import shutil
import subprocess
import time
from concurrent.futures import ThreadPoolExecutor

from common import (ENV, NCPU, HarnessError, bisect_crash, build_dir, cargo_build, extract_block, known_findings, log, parse_stats,
                    run_capture, save_replay, sim_dir, tool_build)

SAN_ENV = dict(ENV)
SAN_ENV["ASAN_OPTIONS"] = "exitcode=77:detect_leaks=1:abort_on_error=0:allocator_may_return_null=1"
SAN_ENV["LSAN_OPTIONS"] = "exitcode=78"
SAN_ENV["UBSAN_OPTIONS"] = "halt_on_error=1:exitcode=77:print_stacktrace=1"
SAN_ENV["RUST_BACKTRACE"] = "0"

KNOWN_KEY_STRS = "cpp-strs-layout"


_BUILT = {}
_PRIVATE = {}


def private_build_dir(repo=None):
    if repo not in _PRIVATE:
        import common
        _PRIVATE[repo] = common.private_work_dir(build_dir(repo), "cpp-build")
    return _PRIVATE[repo]


def build(repo=None):
    """tool -> headers, cargo -> staticlib, g++ -> driver (c++17 and c++20). Returns {std: binary}."""
    key = ("cpp", repo)
    if key in _BUILT:
        return _BUILT[key]
    tool = tool_build(repo)
    sd = sim_dir(repo)
    # generated headers and driver binaries live in a directory of this process: two checks that build them at the
    # same time (C03 and C12 both use the C++ driver) must not overwrite each other's files while they are in use
    bd = private_build_dir(repo)
    gen = os.path.join(bd, "gen", "vbridge-cpp")
    shutil.rmtree(gen, ignore_errors=True)
    os.makedirs(gen)
    rc, out, err = run_capture([tool, "cpp", gen, "-e", "src/lib.rs", "-s"], cwd=os.path.join(sd, "rs", "vbridge"))
    if rc != 0:
        raise HarnessError("diplomat-tool cpp failed on the verification bridge (rc=%d)\n%s\n%s" % (rc, out[-2000:], err[-3000:]))
    libdir = cargo_build(["vbridge"], repo)
    lib = os.path.join(libdir, "libvbridge.a")
    outdir = os.path.join(bd, "cpp")
    os.makedirs(outdir, exist_ok=True)
    src = os.path.join(sd, "cpp", "own_driver.cpp")

    def compile_one(std):
        exe = os.path.join(outdir, "own_driver_" + std)
        # uninitialised automatic storage is an ambient input too: one build fills it with a pattern, the other with zeros
        init = "-ftrivial-auto-var-init=pattern" if std == "17" else "-ftrivial-auto-var-init=zero"
        cmd = ["g++", "-std=c++" + std, "-g", "-O0", init, "-fsanitize=address,undefined", "-fno-omit-frame-pointer", "-fno-sanitize-recover=undefined",
               "-I", gen, src, lib, "-lpthread", "-ldl", "-lm", "-o", exe]
        r = subprocess.run(cmd, stdout=subprocess.PIPE, stderr=subprocess.STDOUT, text=True)
        if r.returncode != 0:
            raise HarnessError("g++ -std=c++%s failed on the driver / generated headers:\n%s" % (std, r.stdout[-6000:]))
        return std, exe
    t0 = time.time()
    with ThreadPoolExecutor(max_workers=2) as ex:
        exes = dict(ex.map(compile_one, ["17", "20"]))
    log("[build] C++ driver (c++17, c++20, ASan+UBSan) %.1fs" % (time.time() - t0))
    _BUILT[key] = exes
    return exes


def build_c(repo=None):
    """`diplomat-tool c` headers for vbridge + gcc (C11, ASan+UBSan) -> sim/c/write_c.c"""
    key = ("c", repo)
    if key in _BUILT:
        return _BUILT[key]
    tool = tool_build(repo)
    sd = sim_dir(repo)
    bd = private_build_dir(repo)
    gen = os.path.join(bd, "gen", "vbridge-c")
    shutil.rmtree(gen, ignore_errors=True)
    os.makedirs(gen)
    rc, out, err = run_capture([tool, "c", gen, "-e", "src/lib.rs", "-s"], cwd=os.path.join(sd, "rs", "vbridge"))
    if rc != 0:
        raise HarnessError("diplomat-tool c failed on the verification bridge (rc=%d)\n%s" % (rc, err[-3000:]))
    lib = os.path.join(cargo_build(["vbridge"], repo), "libvbridge.a")
    outdir = os.path.join(bd, "cpp")
    os.makedirs(outdir, exist_ok=True)
    exe = os.path.join(outdir, "write_c")
    cmd = ["gcc", "-std=c11", "-g", "-O0", "-ftrivial-auto-var-init=pattern", "-fsanitize=address,undefined", "-fno-omit-frame-pointer", "-fno-sanitize-recover=undefined",
           "-I", gen, os.path.join(sd, "c", "write_c.c"), lib, "-lpthread", "-ldl", "-lm", "-o", exe]
    r = subprocess.run(cmd, stdout=subprocess.PIPE, stderr=subprocess.STDOUT, text=True)
    if r.returncode != 0:
        raise HarnessError("gcc failed on write_c.c / the generated C headers:\n%s" % r.stdout[-6000:])
    _BUILT[key] = exe
    return exe


def run_c(seed, n_traces, repo=None):
    """The C caller's side of DiplomatWrite through the generated C headers. Returns (coverage, violations)."""
    exe = build_c(repo)
    nproc = NCPU // 2
    per = (n_traces + nproc - 1) // nproc
    cov = {"runs": 0, "counters": {}}
    violations = []

    def one(k):
        a, b = k * per, min((k + 1) * per, n_traces)
        return k, a, b, run_capture([exe, "run", "--seed", str(seed), "--from", str(a), "--to", str(b)], env=SAN_ENV)
    with ThreadPoolExecutor(max_workers=nproc) as ex:
        results = list(ex.map(one, range(nproc)))
    for k, a, b, (rc, out, err) in results:
        if a >= b:
            continue
        stats, viols = parse_stats(out)
        if rc == 1 and viols:
            if not violations:
                p = save_replay("C12-cwrite-%d-%d.trace" % (seed, k), extract_block(out, "REPLAY") or "")
                violations += [v.replace("replay=-", "replay=" + p) for v in viols]
        elif rc != 0 or stats is None:
            first = bisect_crash(lambda x, y: [exe, "run", "--seed", str(seed), "--from", str(x), "--to", str(y)], a, b, env=SAN_ENV)
            if first is None:
                raise HarnessError("write_c died (rc=%s) but no single run reproduces it\n%s" % (rc, err[-3000:]))
            rc2, _, err2 = run_capture([exe, "run", "--seed", str(seed), "--from", str(first), "--to", str(first + 1)], env=SAN_ENV)
            report = "\n".join("# " + l for l in err2.splitlines()[:50])
            p = save_replay("C12-cwrite-crash-%d-%d.trace" % (seed, first), "# c-write-trace v1 (C12)\n# generated trace: write_c run --seed %d --from %d --to %d\n# property C12\n# oracle %s (rc=%d)\n%s\n" % (seed, first, first + 1, "ASAN/UBSAN" if rc2 == 77 else "CRASH", rc2, report))
            if not violations:
                violations.append("VIOLATION property=C12 replay=%s oracle=%s engine=c-write seed=%d run=%d" % (p, "ASAN/UBSAN" if rc2 == 77 else "CRASH", seed, first))
        if stats:
            cov["runs"] += stats["runs"]
            for kk, vv in stats["counters"].items():
                cov["counters"][kk] = cov["counters"].get(kk, 0) + vv
    return cov, violations


def _known_flags(prop):
    findings, _ = known_findings()
    keys = [f["key"] for f in findings if f["property"] == "C03" and f["key"].startswith("cpp-")]
    return keys, {f["key"]: f for f in findings if f["property"] == "C03"}


def run_prop(prop, tier, seed, n_traces, repo=None):
    """Returns (coverage dict, [violation lines], [known-finding lines])."""
    exes = build(repo)
    keys, fmap = _known_flags(prop)
    known_arg = ["--known", ",".join(keys)] if keys else []
    nproc = NCPU // 2
    per = (n_traces + nproc - 1) // nproc
    cov = {"runs": 0, "distinct_nontrivial": 0, "distinct_traces": 0, "per_std": {}, "counters": {}, "samples": []}
    violations, known_lines = [], []

    # ---- listed findings: demonstrated in their own process, never allowed to hide anything else
    if prop == "C03" and KNOWN_KEY_STRS in keys:
        rc, out, err = run_capture([exes["17"], "probe", "--known", ""], env=SAN_ENV)
        if rc != 0 or "PROBE-OK" not in out:
            what = "SEGV/abort" if rc not in (0, 1) else out.strip()
            known_lines.append("KNOWN-FINDING: property=C03 %s [probe: %s]" % (fmap[KNOWN_KEY_STRS]["text"], what.replace("\n", " ")[:160]))
            cov["known_finding_probe"] = {"key": KNOWN_KEY_STRS, "still_reproduces": True, "observed": what[:200]}
        else:
            cov["known_finding_probe"] = {"key": KNOWN_KEY_STRS, "still_reproduces": False}

    for std, exe in sorted(exes.items()):
        def one(k, exe=exe):
            a, b = k * per, min((k + 1) * per, n_traces)
            return k, a, b, run_capture([exe, "run", "--prop", prop, "--seed", str(seed), "--from", str(a), "--to", str(b)] + known_arg, env=SAN_ENV)
        with ThreadPoolExecutor(max_workers=nproc) as ex:
            results = list(ex.map(one, range(nproc)))
        agg = {"runs": 0, "distinct_traces": 0, "distinct_nontrivial": 0, "distinct_transitions": 0, "digests": []}
        for k, a, b, (rc, out, err) in results:
            if a >= b:
                continue
            stats, viols = parse_stats(out)
            if rc == 2:
                raise HarnessError("C++ driver harness error\n%s" % err[-2000:])
            if rc == 1 and viols:
                rep = extract_block(out, "REPLAY") or ""
                p = save_replay("%s-cpp%s-%d-%d.trace" % (prop, std, seed, k), rep)
                violations += [v.replace("replay=-", "replay=" + p) + " std=c++" + std for v in viols]
            elif rc != 0 or stats is None:
                # sanitizer report or abort: find the single run
                first = bisect_crash(lambda x, y: [exe, "run", "--prop", prop, "--seed", str(seed), "--from", str(x), "--to", str(y)] + known_arg, a, b, env=SAN_ENV)
                if first is None:
                    raise HarnessError("C++ driver died (rc=%s) but no single run reproduces it\n%s" % (rc, err[-3000:]))
                _, tr, _ = run_capture([exe, "gen", "--prop", prop, "--seed", str(seed), "--run", str(first)], env=SAN_ENV)
                rc2, _, err2 = run_capture([exe, "run", "--prop", prop, "--seed", str(seed), "--from", str(first), "--to", str(first + 1)] + known_arg, env=SAN_ENV)
                kind = "ASAN/UBSAN" if rc2 == 77 else "LSAN-LEAK" if rc2 == 78 else "CRASH"
                report = "\n".join("# " + l for l in err2.splitlines()[:60])
                p = save_replay("%s-cpp%s-crash-%d-%d.trace" % (prop, std, seed, first), tr + "# property %s\n# oracle %s (rc=%d) std=c++%s\n%s\n" % (prop, kind, rc2, std, report))
                violations.append("VIOLATION property=%s replay=%s oracle=%s engine=cpp std=c++%s seed=%d run=%d" % (prop, p, kind, std, seed, first))
            if stats:
                agg["runs"] += stats["runs"]
                agg["distinct_traces"] += stats["distinct_traces"]
                agg["distinct_nontrivial"] += stats["distinct_nontrivial"]
                agg["distinct_transitions"] = max(agg["distinct_transitions"], stats["distinct_transitions"])
                agg["digests"].append(stats["log_digest"])
                for kk, vv in stats["counters"].items():
                    cov["counters"][kk] = cov["counters"].get(kk, 0) + vv
                if len(cov["samples"]) < 2:
                    cov["samples"] += stats["samples"][:1]
        cov["per_std"]["c++" + std] = agg
        cov["runs"] += agg["runs"]
        # the two -std builds execute the same traces: count distinct cases once
        cov["distinct_nontrivial"] = max(cov["distinct_nontrivial"], agg["distinct_nontrivial"])
        cov["distinct_traces"] = max(cov["distinct_traces"], agg["distinct_traces"])
        if violations:
            break
    return cov, violations, known_lines


def run(tier, seed, n_traces):
    cov, violations, known_lines = run_prop("C03", tier, seed, n_traces)
    cov["known_lines"] = known_lines
    return cov, violations


def replay(path):
    text = open(path).read()
    if text.startswith("# c-write-trace"):
        exe = build_c()
        import re
        m = re.search(r"# generated trace: write_c run --seed (\d+) --from (\d+) --to (\d+)", text)
        cmd = [exe, "run", "--seed", m.group(1), "--from", m.group(2), "--to", m.group(3)] if m else [exe, "replay", path]
        rc, out, err = run_capture(cmd, env=SAN_ENV)
        print(out, end="")
        if rc not in (0, 1, 2):
            print("\n".join(err.splitlines()[:40]))
            print("VIOLATION property=C12 replay=%s oracle=%s (rc=%d)" % (path, "ASAN/UBSAN" if rc == 77 else "CRASH", rc))
            return 1
        if m and rc == 0:
            print("REPLAY-OK no violation")
        return rc
    prop = "C12" if "(C12)" in text.split("\n", 1)[0] else "C03"
    exes = build()
    keys, _ = _known_flags(prop)
    std = "20" if "std=c++20" in text else "17"
    rc, out, err = run_capture([exes[std], "replay", path] + (["--known", ",".join(keys)] if keys else []), env=SAN_ENV)
    print(out, end="")
    if rc not in (0, 1, 2):
        print("\n".join(err.splitlines()[:40]))
        print("VIOLATION property=%s replay=%s oracle=%s (rc=%d)" % (prop, path, "ASAN/UBSAN" if rc == 77 else "LSAN-LEAK" if rc == 78 else "CRASH", rc))
        return 1
    return rc
