"""C04 (scoped) — GC-schedule safety of the JS backend's lifetime edges (`gc-sim`, DESIGN.md §4)."""
import json
import os
import re
import shutil
import time
from concurrent.futures import ThreadPoolExecutor

import common
from common import (NCPU, HarnessError, build_dir, extract_block, log, parse_stats, repo_dir, repo_state, run_capture, save_replay, sim_dir,
                    tool_build, write_evidence)

PROP = "C04"

BUDGET = {
    "quick": {"bridges": 128, "traces": 50, "omit": 24},
    "thorough": {"bridges": 2000, "traces": 200, "omit": 300},
}
# "negative" bridges (gen.mjs::negativeSpecs / omitSpec): a method leaves a definition-implied bound implicit. The tool is
# expected to reject them; one it accepts is checked like any other bridge (the model knows the implied bound)
N_NEGATIVE = 4
NEG_BASE, OMIT_BASE = -10, 1000000


def is_negative(idx):
    return idx <= NEG_BASE or idx >= OMIT_BASE
ABIS = [("legacy", []), ("spec", ["--config", "js.abi=spec"])]


DROPPED = []  # (bridge index, methods the lowering gate rejected and the bridge was regenerated without)
ANSI = re.compile(r"\x1b\[[0-9;]*m")
CATALOGUE = -1  # bridge index of the fixed catalogue of delicate shapes (gen.mjs::catalogueSpec)


def prepare_bridge(tool, js_dir, work, seed, idx):
    """gen.mjs -> src/lib.rs + desc.json; the real tool -> api/ for both ABIs. Returns [(abi, dir)] and rejected count."""
    base = os.path.join(work, "b%d" % idx if idx != CATALOGUE else "catalogue")
    if idx == CATALOGUE:
        gen_args = ["--catalogue", "1"]
    elif idx <= NEG_BASE:
        gen_args = ["--negative", str(NEG_BASE - idx)]
    elif idx >= OMIT_BASE:
        gen_args = ["--seed", str(seed), "--omit", str(idx - OMIT_BASE)]
    else:
        gen_args = ["--seed", str(seed), "--bridge", str(idx)]
    # A method the lowering gate rejects needs no checking, but it must not take the rest of its bridge with it: the tool
    # names the methods it rejects ("Lowering error in O2::m32: ..."), and the bridge is generated again without them.
    drop = []
    for attempt in range(4):
        if os.path.isdir(base):
            shutil.rmtree(base)
        rc, out, err = run_capture(["node", os.path.join(js_dir, "gen.mjs")] + gen_args + (["--drop", ",".join(drop)] if drop else []) + ["--out", base])
        if rc == 3 and "NO-SPEC" in out:
            return [], 0, 0
        if rc != 0:
            raise HarnessError("gen.mjs failed: %s" % err[-2000:])
        ready, rejected, crashed, named = [], 0, 0, []
        for abi, extra in ABIS:
            d = os.path.join(base, abi)
            os.makedirs(d, exist_ok=True)
            shutil.copy(os.path.join(base, "desc.json"), os.path.join(d, "desc.json"))
            rc, out, err = run_capture([tool, "js", os.path.join(d, "api"), "-e", os.path.join(base, "src", "lib.rs"), "-s"] + extra, cwd=base)
            if rc != 0:
                if "panicked at" in err:
                    crashed += 1  # C15's subject, not C04's
                else:
                    named += [m for m in re.findall(r"Lowering error in (\w+::m\d+):", ANSI.sub("", out + err)) if m not in named and m not in drop]
                rejected += 1
                continue
            with open(os.path.join(d, "api", "diplomat-wasm.mjs"), "w") as f:
                f.write("// model wasm installed by gc-sim (lib/c04.py); the real module needs a wasm32 build of the bridge\nexport default globalThis.__vsim_wasm;\n")
            ready.append((abi, d))
        # (negative bridges ask whether the tool accepts one particular method: no retry there)
        if not named or attempt == 3 or idx <= NEG_BASE or idx >= OMIT_BASE:
            break
        drop += named
    if drop:
        DROPPED.append((idx, list(drop)))
    return ready, rejected, crashed


def check(tier, seed):
    t0 = time.time()
    b = BUDGET[tier]
    tool = tool_build()
    sd = sim_dir()
    js_dir = os.path.join(sd, "js")
    work = common.private_work_dir(build_dir(), "gc-work")

    # ---- the model itself is validated first against the hand-annotated ground truth of the repository
    rc, out, err = run_capture(["node", os.path.join(js_dir, "validate_model.mjs"), os.path.join(repo_dir(), "feature_tests", "src", "lifetimes.rs")])
    if rc != 0:
        raise HarnessError("the independent outlives model disagrees with the annotated ground truth in feature_tests/src/lifetimes.rs:\n" + out)
    model_validation = out.strip().splitlines()[-1]

    with ThreadPoolExecutor(max_workers=NCPU) as ex:
        prepared = list(ex.map(lambda i: prepare_bridge(tool, js_dir, work, seed, i), range(b["bridges"])))
    jobs = []
    rejected = sum(p[1] for p in prepared)
    crashed = sum(p[2] for p in prepared)
    for idx, (ready, _, _) in enumerate(prepared):
        for abi, d in ready:
            jobs.append((idx, abi, d, 0, b["traces"]))
    # the fixed catalogue bridge gets ten times the schedules of a generated one, split over several processes
    cat_ready, cat_rej, cat_crash = prepare_bridge(tool, js_dir, work, seed, CATALOGUE)
    catalogue_status = "ran" if cat_ready else "rejected by the tool on this tree"
    for abi, d in cat_ready:
        for part in range(10):
            jobs.append((CATALOGUE, abi, d, part * b["traces"], (part + 1) * b["traces"]))
    # negative bridges: rejected ones are the expected outcome and are not part of the 25 % rule below
    neg_idx = [NEG_BASE - k for k in range(N_NEGATIVE)] + [OMIT_BASE + i for i in range(b["omit"])]
    with ThreadPoolExecutor(max_workers=NCPU) as ex:
        neg_prepared = list(ex.map(lambda i: (i, prepare_bridge(tool, js_dir, work, seed, i)), neg_idx))
    neg_accepted = 0
    for idx, (ready, _, ncr) in neg_prepared:
        crashed += ncr
        for abi, d in ready:
            neg_accepted += 1
            jobs.append((idx, abi, d, 0, 4 * b["traces"]))
    total_gen = b["bridges"] * len(ABIS)
    if rejected * 4 > total_gen:
        raise HarnessError("more than 25%% of the generated bridges were rejected by the tool (%d of %d): the generator is broken" % (rejected, total_gen))

    def run_job(job):
        idx, abi, d, lo, hi = job
        cmd = ["node", "--expose-gc", os.path.join(js_dir, "gcsim.mjs"), "--dir", d, "--seed", str(seed), "--bridge", str(idx), "--abi", abi, "--from", str(lo), "--to", str(hi)]
        return job, run_capture(cmd)
    violations, counters, samples = [], {}, []
    totals = {"runs": 0, "distinct_traces": 0, "distinct_nontrivial": 0, "bridges_run": 0}
    transitions = 0
    with ThreadPoolExecutor(max_workers=NCPU) as ex:
        for (idx, abi, d, lo, hi), (rc, out, err) in ex.map(run_job, jobs):
            stats, viols = parse_stats(out)
            if rc == 2 or (rc not in (0, 1)) or stats is None:
                raise HarnessError("gc-sim harness error on bridge %d/%s (rc=%s)\n%s\n%s" % (idx, abi, rc, out[-1500:], err[-3000:]))
            totals["runs"] += stats["runs"]
            totals["distinct_traces"] += stats["distinct_traces"]
            totals["distinct_nontrivial"] += stats["distinct_nontrivial"]
            totals["bridges_run"] += 1
            transitions = max(transitions, stats["distinct_transitions"])
            for k, v in stats["counters"].items():
                counters[k] = counters.get(k, 0) + v
            if stats["samples"] and len(samples) < 3:
                samples.append({"bridge": idx, "abi": abi, "rust_source": open(os.path.join(os.path.dirname(d), "src", "lib.rs")).read(), "trace": stats["samples"][0]})
            if rc == 1 and viols and not violations:
                rep = json.loads(extract_block(out, "REPLAY"))
                rep["abi"] = abi
                rep["rust_source"] = open(os.path.join(os.path.dirname(d), "src", "lib.rs")).read()
                p = save_replay("C04-gc-%d-b%s-%s.json" % (seed, "cat" if idx == CATALOGUE else ("neg%d" % (NEG_BASE - idx) if idx <= NEG_BASE else idx), abi), json.dumps(rep, indent=1))
                violations += [v.replace("replay=-", "replay=" + p) + " abi=" + abi for v in viols]
    if counters.get("probe_lender_unreachable_while_borrower_held", 0) == 0:
        raise HarnessError("the simulation is vacuous: no GC point ever found a lender unreachable while its borrower was held")
    wall = time.time() - t0
    cov = {
        "evaluations": totals["runs"],
        "distinct_nontrivial": totals["distinct_nontrivial"],
        "rule": ("A case is one GC schedule (trace) over one generated bridge and one JS ABI: operations construct / call method / drop holder reference / GC point / run the k-th pending finalizer / use / "
                 "arm memory.grow / arm export-throw over up to 6 held wrappers. Per bridge, one directed schedule per method / Result arm / kept struct field (distinct objects for all inputs, all inputs dropped, GC, all finalizers, use) precedes the random ones; a fixed catalogue of delicate signatures and 'negative' bridges (a definition-implied bound left implicit; only run if the tool accepts them) run next to the generated ones. Bridges are generated from xoshiro128**(VERIF_SEED, bridge) inside the grammar C04 quantifies over (opaques with 0-2 lifetimes and optional "
                 "definition bounds, borrowing structs, up to 4 method lifetimes with random declared bounds, anonymous input lifetimes, optional opaque parameters, Box/&/Option/Result returns); the real tool generates the JS. "
                 "distinct = FNV-64 of the op list per (bridge, ABI); non-trivial = at least one GC point at which something a held value may borrow from was no longer held by the program (the configuration S1 exists for)."),
        "samples": samples,
        "exhaustive": False,
        "bridges_generated": b["bridges"], "catalogue_bridge": catalogue_status, "negative_bridges": {"generated": len(neg_idx), "bridge_abi_pairs_accepted_by_the_tool_and_run": neg_accepted, "note": "methods that leave a definition-implied bound implicit; the tool's validation is expected to reject them"}, "bridge_abi_pairs_run": totals["bridges_run"], "tool_rejected": rejected, "bridges_regenerated_without_methods_the_lowering_gate_rejected": len(DROPPED), "methods_rejected_by_the_lowering_gate_and_left_out": sum(len(d[1]) for d in DROPPED), "tool_crashed_on_generated_bridge": crashed,
        "distinct_traces": totals["distinct_traces"], "max_distinct_op_transitions_per_bridge": transitions,
        "fault_kinds_fired": {k: v for k, v in counters.items() if k.startswith("fault_")},
        "reach_probes": {k: v for k, v in sorted(counters.items()) if not k.startswith("fault_") and not k.startswith("ops_")},
        "logical_steps_simulated": counters.get("ops_executed", 0), "ops_skipped_by_executor": counters.get("ops_skipped", 0),
        "runs_per_hour": int(totals["runs"] / max(wall, 1e-9) * 3600),
        "model_validation": model_validation,
        "oracles": ["S1 no premature free (checked at use): every transitive lender of a still-held value is undestroyed / unfreed with its tag bytes intact, and the object that owns a lender buffer (arena / buffer object, learnt by wrapping the generated runtime's alloc) has not been collected",
                    "S2 no dangling argument passed to an export", "S3 exactly-once at the wasm boundary; a borrowed return that lives inside a lender is never destroyed by its wrapper"],
        "components": {"real": ["diplomat-tool (parser, lowering, borrow analysis, JS backend) from the tree under test", "generated .mjs + diplomat-runtime.mjs", "V8's collector (reachability) and WebAssembly.Memory (buffer detachment)"],
                       "stub": ["the wasm module (model wasm playing the most-borrowing body each signature admits; no wasm32 target is installed)", "FinalizationRegistry scheduling (simulated: the trace decides which dead registration is finalized when)"]},
        "scope": "JS backend only (legacy and spec ABI). Not decided: the upper bound of 'exactly' (over-retention is safe and allowed), Dart/Kotlin/nanobind emitters (no toolchain to execute them).",
        "tree_under_test": repo_state(),
    }
    assumptions = [
        "V8's gc() under --expose-gc is precise for unreachable wrappers (monitored by a canary pair at every GC point; imprecision can only hide, never fabricate, a premature free)",
        "the model wasm plays the worst case the Rust signature admits, computed from declared bounds + &'a T<'b> implied bounds + definition-site bounds, independently of Diplomat (validated against feature_tests' annotated ground truth on every run)",
        "exceptions thrown by finalizer callbacks and leaks are outside C04 and only counted",
    ]
    write_evidence(PROP, tier, seed, "exploration", cov, assumptions, wall, len(violations))
    for v in violations:
        print(v, flush=True)
    return 1 if violations else 0


def replay(path):
    rep = json.load(open(path))
    tool = tool_build()
    sd = sim_dir()
    js_dir = os.path.join(sd, "js")
    work = common.private_work_dir(build_dir(), "gc-replay")
    ready, rejected, _ = prepare_bridge(tool, js_dir, work, rep["seed"], rep["bridge"])
    dirs = dict(ready)
    if rep.get("abi") not in dirs:
        if is_negative(rep["bridge"]):
            # the expected outcome for a method that leaves a definition-implied bound implicit: nothing is generated
            print("REPLAY-OK the tool rejects this bridge on this tree (no bindings are generated, so nothing can be freed early)")
            return 0
        print("the tool rejects this bridge for ABI %s on this tree; nothing to replay" % rep.get("abi"))
        return 2
    rc, out, err = run_capture(["node", "--expose-gc", os.path.join(js_dir, "gcsim.mjs"), "--dir", dirs[rep["abi"]], "--replay", path])
    print(out, end="")
    if rc not in (0, 1):
        print(err[-2000:])
        return 2
    return rc
