"""C12 — DiplomatWrite exact, never overruns (`write-sim`, DESIGN.md §5)."""
import os
import time
from concurrent.futures import ThreadPoolExecutor

from common import (NCPU, REPLAYS, HarnessError, bisect_crash, cargo_build, extract_block, log, miri_cmd, parse_stats,
                    repo_state, run_allocfault, run_capture, run_engine_miri, run_engine_native, save_replay, write_evidence, ENV)

PROP = "C12"

BUDGET = {
    "quick": {"enum": "quick", "sampled": 2_000_000, "miri_shapes": 128, "miri_procs": 8, "w2": 500_000, "w2_miri": 32, "cpp": 40_000, "allocfault": 600, "cwrite": 200_000},
    "thorough": {"enum": "thorough", "sampled": 300_000_000, "miri_shapes": 3000, "miri_procs": 16, "w2": 50_000_000, "w2_miri": 600, "cpp": 4_000_000, "allocfault": 30000, "cwrite": 20_000_000},
}


def _merge_counters(dst, src):
    for k, v in (src or {}).items():
        dst[k] = dst.get(k, 0) + v


def run_native(binary, args, what):
    rc, out, err = run_capture([binary] + args)
    if rc == 2:
        raise HarnessError("%s: harness error\n%s\n%s" % (what, out[-2000:], err[-2000:]))
    stats, viols = parse_stats(out)
    return rc, stats, viols, out, err


def check(tier, seed):
    t0 = time.time()
    b = BUDGET[tier]
    bindir = cargo_build(["write-sim"])
    binary = os.path.join(bindir, "write-sim")
    os.makedirs(REPLAYS, exist_ok=True)
    phases = []
    violations = []
    counters = {}
    samples = []
    totals = {"evaluations": 0, "distinct_nontrivial": 0, "distinct_traces": 0, "distinct_shapes": 0}

    def absorb(name, stats, wall):
        phases.append({"phase": name, "runs": stats["runs"], "distinct_traces": stats["distinct_traces"], "distinct_shapes": stats["distinct_shapes"],
                       "distinct_nontrivial": stats["distinct_nontrivial"], "distinct_abstract_transitions": stats["distinct_transitions"],
                       "event_log_digest": stats["log_digest"], "wall_s": round(wall, 2),
                       "complete_fault_sequences": stats.get("enum_complete_fault_sequences", 0)})
        _merge_counters(counters, stats["counters"])
        totals["evaluations"] += stats["runs"]
        totals["distinct_nontrivial"] += stats["distinct_nontrivial"]
        for s in stats["samples"][:2]:
            if len(samples) < 6:
                samples.append({"phase": name, "trace": s})

    # ---- phase 1: exhaustive enumeration of the small fault space
    t1 = time.time()
    rc, stats, viols, out, err = run_native(binary, ["enum", "--tier", b["enum"], "--threads", str(NCPU), "--out", REPLAYS], "enum")
    if rc not in (0, 1) or stats is None:
        raise HarnessError("write-sim enum died (rc=%s)\n%s" % (rc, err[-3000:]))
    absorb("enumerated-native", stats, time.time() - t1)
    enum_exhaustive = (rc == 0)
    violations += viols
    log("[C12] enumeration: %d complete fault sequences, %d violations (%.1fs)" % (stats["enum_complete_fault_sequences"], len(viols), time.time() - t1))

    # ---- phase 2: seeded sampling (native, canaries + poisoned graveyard)
    if not violations:
        t1 = time.time()
        n = b["sampled"]
        args = ["run", "--seed", str(seed), "--from", "0", "--to", str(n), "--threads", str(NCPU), "--out", REPLAYS]
        rc, stats, viols, out, err = run_native(binary, args, "sampled")
        if rc not in (0, 1):
            # the process died (abort inside an extern "C" frame, SIGSEGV, ...): find the run
            first = bisect_crash(lambda a, c: [binary, "run", "--seed", str(seed), "--from", str(a), "--to", str(c), "--threads", "1", "--out", "-"], 0, n)
            if first is None:
                raise HarnessError("write-sim died (rc=%s) but no single run reproduces it\n%s" % (rc, err[-3000:]))
            _, tr, _ = run_capture([binary, "gen", "--seed", str(seed), "--run", str(first)])
            p = save_replay("C12-crash-%d-%d.trace" % (seed, first), tr + "# property C12\n# oracle CRASH (process died while executing this trace)\n")
            violations.append("VIOLATION property=C12 replay=%s oracle=CRASH seed=%d run=%d" % (p, seed, first))
        else:
            absorb("sampled-native", stats, time.time() - t1)
            violations += viols
            log("[C12] sampled: %d runs, %d violations (%.1fs)" % (stats["runs"], len(viols), time.time() - t1))

    # ---- phase 3: shape-distinct traces under Miri (exact allocations, stale pointers, UB)
    miri_total = 0
    if not violations:
        t1 = time.time()
        cmd, cwd = miri_cmd("write-sim")
        procs = b["miri_procs"]
        per = (b["miri_shapes"] + procs - 1) // procs
        env = dict(ENV)
        env["MIRIFLAGS"] = "-Zmiri-ignore-leaks" if False else ""

        def one(k):
            lo = 2_000_000_000 + k * 10_000_000  # disjoint from the sampled phase's run indices
            a = ["run", "--seed", str(seed), "--from", str(lo), "--to", str(lo + 10_000_000), "--distinct-shapes", str(per), "--out", "-"]
            return run_capture(cmd + a, cwd=cwd, env=env)
        # build once (first invocation) before fanning out, so the processes do not race on the target dir
        results = [one(0)]
        if procs > 1:
            with ThreadPoolExecutor(max_workers=min(procs - 1, NCPU)) as ex:
                results += list(ex.map(one, range(1, procs)))
        for k, (rc, out, err) in enumerate(results):
            stats, viols = parse_stats(out)
            if rc == 1 and viols:
                rep = extract_block(out, "REPLAY") or ""
                p = save_replay("C12-miri-%d-%d.trace" % (seed, k), rep)
                violations += [v.replace("replay=-", "replay=" + p) for v in viols]
            elif rc != 0 or stats is None:
                # Miri itself reported undefined behaviour (or could not build): that is a finding about
                # the code under test only if it is UB; build errors are harness errors.
                if "Undefined Behavior" in err or "error: memory leaked" in err or "memory leaked" in err:
                    p = save_replay("C12-miri-ub-%d-%d.txt" % (seed, k), "# Miri report while running: write-sim run --seed %d --from %d --distinct-shapes %d\n%s" % (seed, 2_000_000_000 + k * 10_000_000, per, err[-8000:]))
                    violations.append("VIOLATION property=C12 replay=%s oracle=MIRI-UB seed=%d part=%d" % (p, seed, k))
                else:
                    raise HarnessError("miri run failed (rc=%s)\n%s" % (rc, err[-4000:]))
            if stats:
                absorb("miri-part-%d" % k, stats, 0)
                miri_total += stats["runs"]
        log("[C12] miri: %d shape-distinct traces, %d violations (%.1fs)" % (miri_total, len(violations), time.time() - t1))

    # ---- phase 4: write-out methods through the macro-generated extern "C" wrappers (I8: flush exactly
    # once, after the body, on both Result arms; content exact; sticky failure) — own-sim's L2 executor in C12 mode
    if not violations:
        t1 = time.time()
        own_bin = os.path.join(cargo_build(["own-sim"]), "own-sim")
        stats, viols = run_engine_native(own_bin, ["w2"], seed, b["w2"], PROP, "write-l2")
        if stats:
            stats.setdefault("enum_complete_fault_sequences", 0)
            absorb("macro-write-methods-native", {**stats, "counters": {("l2_" + k): v for k, v in stats["counters"].items()}}, time.time() - t1)
        violations += viols
        if not violations:
            sts, viols = run_engine_miri("own-sim", ["w2"], seed, b["w2_miri"], min(b["miri_procs"], 8), PROP, "write-l2")
            for i, st in enumerate(sts):
                absorb("macro-write-methods-miri-%d" % i, {**st, "counters": {("l2_" + k): v for k, v in st["counters"].items()}}, 0)
            violations += viols
        log("[C12] macro write methods: %d violations (%.1fs)" % (len(viols), time.time() - t1))

    # ---- phase 4b: failing allocations inside the Rust-owned writer: if the process survives, the sticky-flag rules apply
    allocfault = None
    if not violations:
        t1 = time.time()
        allocfault, viols = run_allocfault(binary, PROP, seed, b["allocfault"])
        violations += viols
        totals["evaluations"] += allocfault["processes"]
        log("[C12] failing allocations: %s, %d violations (%.1fs)" % (allocfault, len(viols), time.time() - t1))

    # ---- phase 5: the C++ owner (WriteFromString/_grow/_flush of the generated diplomat_runtime.hpp) and the
    # std::string returned by generated wrappers, under ASan, c++17 and c++20 (I9)
    cpp_cov = None
    if not violations:
        t1 = time.time()
        import c03_cpp
        cpp_cov, viols, _known = c03_cpp.run_prop(PROP, tier, seed, b["cpp"])
        violations += viols
        totals["evaluations"] += cpp_cov["runs"]
        totals["distinct_nontrivial"] += cpp_cov["distinct_nontrivial"]
        for k, v in cpp_cov["counters"].items():
            counters["cpp_" + k] = counters.get("cpp_" + k, 0) + v
        log("[C12] C++ string output (ASan): %d traces, %d violations (%.1fs)" % (cpp_cov["runs"], len(viols), time.time() - t1))

    # ---- phase 6: the C caller's side through the generated C headers (struct DiplomatWrite, diplomat_simple_write,
    # diplomat_buffer_write_*, a write-out method), gcc C11 + ASan
    c_cov = None
    if not violations:
        t1 = time.time()
        import c03_cpp
        c_cov, viols = c03_cpp.run_c(seed, b["cwrite"])
        violations += viols
        totals["evaluations"] += c_cov["runs"]
        for k, v in c_cov["counters"].items():
            counters["c_" + k] = counters.get("c_" + k, 0) + v
        log("[C12] C API string output (generated C headers, ASan): %d traces, %d violations (%.1fs)" % (c_cov["runs"], len(viols), time.time() - t1))

    wall = time.time() - t0
    fault_counts = {k: v for k, v in counters.items() if k.startswith("fault_")}
    probes = {k: v for k, v in counters.items() if k.startswith("probe_")}
    cov = {
        "evaluations": totals["evaluations"],
        "distinct_nontrivial": totals["distinct_nontrivial"],
        "rule": ("A case is one trace = (writer kind, initial capacity, prefill, the buffer owner's grow-outcome vector, operation list). "
                 "Phase 'enumerated' walks every sequence over chunk lengths {0,1,2,3,5} plus a single-character write_char (fixed and Rust-owned writers: plus flush) up to the tier's length x initial capacities x the complete tree of "
                 "grow outcomes {fail, exact+relocate, exact+in-place, +1 relocate, +4 in-place} actually requested by the code (a leaf = one complete fault sequence); "
                 "phase 'sampled' draws swarm-configured traces from xoshiro128**(VERIF_SEED, run); phase 'miri' executes the first trace of each new shape. "
                 "distinct = FNV-64 of the trace text without its seed/run header, summed over phases; non-trivial = at least one write and at least one growth decision, "
                 "fixed-buffer overflow, Rust-owned reallocation or exact-fit / one-past-capacity chunk."),
        "samples": samples,
        "exhaustive": False,
        "enumeration_exhaustive_within_bounds": enum_exhaustive,
        "phases": phases,
        "fault_kinds_fired": {**fault_counts, **{k: v for k, v in counters.items() if k.startswith("l2_fault_") or k.startswith("cpp_fault_")}},
        "cpp_layer": cpp_cov,
        "c_layer": c_cov,
        "failing_allocation_fault": allocfault,
        "reach_probes": probes,
        "other_counters": {k: v for k, v in counters.items() if not k.startswith("fault_") and not k.startswith("probe_")},
        "logical_steps_simulated": counters.get("ops", 0),
        "runs_per_hour": int(totals["evaluations"] / max(wall, 1e-9) * 3600),
        "components": {
            "real": ["runtime/src/write.rs: impl fmt::Write for DiplomatWrite, DiplomatWrite::flush, diplomat_simple_write, diplomat_buffer_write_create/get_bytes/len/destroy (compiled from the tree under test)",
                     "tool/templates/cpp/runtime.hpp.jinja WriteFromString/_grow/_flush and the generated std::string-returning wrappers (diplomat-tool cpp output for vbridge, g++ c++17/c++20, ASan)",
                     "tool/templates/c/runtime.h.jinja and the generated C method headers (diplomat-tool c output for vbridge, gcc C11, ASan)",
                     "macro/src/lib.rs: flush emission in the extern \"C\" wrappers of &mut DiplomatWrite methods (vbridge describe/describe_n/try_describe, real proc macro)"],
            "stub": ["the buffer owner (grow/flush callbacks, allocation, relocation) — played by the simulator from the trace"],
            "executed_under": ["native release build with debug assertions, 16-byte canaries, 0xA5 never-written filler behind cap, poisoned graveyard of released buffers", "Miri (exact-size allocations, freed-on-relocate buffers)"],
        },
        "tree_under_test": repo_state(),
    }
    assumptions = [
        "the simulated owner is honest: grow() either returns false and changes nothing or provides at least the requested capacity and preserves [0,len)",
        "the accessors are also applied to caller-supplied writers (they only read fields) because a Rust-owned writer cannot fail to grow without aborting the process",
        "an allocation failure inside the Rust-owned writer is injected (fault-injecting global allocator, one trace per process); on this tree it ends in Rust's out-of-memory abort, which is counted and excluded",
        "the C++ WriteFromString owner is exercised by the C++ driver phase when present",
    ]
    write_evidence(PROP, tier, seed, "fault_enumeration", cov, assumptions, wall, len(violations))
    for v in violations:
        print(v, flush=True)
    return 1 if violations else 0


def replay(path):
    head = open(path).read().split("\n", 1)[0]
    if "(write-l2)" in head:
        import c03
        return c03.replay(path)
    if "cpp-trace" in head or "c-write-trace" in head:
        import c03_cpp
        return c03_cpp.replay(path)
    if path.endswith(".txt") and head.startswith("# Miri report while running: write-sim run"):
        # a Miri report: the same interpreter run is repeated against the tree under test
        import re
        m = re.search(r"--seed (\d+) --from (\d+) --distinct-shapes (\d+)", head)
        cmd, cwd = miri_cmd("write-sim")
        env = dict(ENV)
        env["MIRIFLAGS"] = ""
        lo = int(m.group(2))
        rc, out, err = run_capture(cmd + ["run", "--seed", m.group(1), "--from", str(lo), "--to", str(lo + 10_000_000), "--distinct-shapes", m.group(3), "--out", "-"], cwd=cwd, env=env)
        if "Undefined Behavior" in err or "memory leaked" in err:
            print(err[-3000:])
            print("VIOLATION property=C12 replay=%s oracle=MIRI-UB" % path)
            return 1
        if rc == 1 and "VIOLATION property=" in out:
            print(out[-3000:])
            return 1
        if rc != 0:
            print(err[-3000:])
            return 2
        print("REPLAY-OK Miri ran the recorded range without reporting undefined behaviour or a leak")
        return 0
    bindir = cargo_build(["write-sim"])
    rc, out, err = run_capture([os.path.join(bindir, "write-sim"), "replay", path])
    print(out, end="")
    if rc not in (0, 1, 2):
        print("VIOLATION property=C12 replay=%s oracle=CRASH (process died, rc=%d)" % (path, rc))
        return 1
    return rc
