"""splitmix32-seeded xoshiro128** — bit-identical to simcore::Rng (Rust), own_driver.cpp, shim.c and sim/js/prng.mjs."""
M = 0xFFFFFFFF


def _splitmix32(st):
    st = (st + 0x9E3779B9) & M
    z = st
    z ^= z >> 16
    z = (z * 0x21F0AAAD) & M
    z ^= z >> 15
    z = (z * 0x735A2D97) & M
    z ^= z >> 15
    return st, z


def _rotl(x, k):
    return ((x << k) | (x >> (32 - k))) & M


def fnv1a32(b):
    h = 0x811C9DC5
    for c in b:
        h ^= c
        h = (h * 0x01000193) & M
    return h


class Rng:
    def __init__(self, seed):
        st = seed & M
        self.s = [0, 0, 0, 0]
        for i in range(4):
            st, self.s[i] = _splitmix32(st)
        if self.s == [0, 0, 0, 0]:
            self.s[0] = 1

    @classmethod
    def derive(cls, seed, engine, run):
        lo, hi = seed & M, (seed >> 32) & M
        rlo, rhi = run & M, (run >> 32) & M
        _, a = _splitmix32(lo ^ fnv1a32(engine.encode()))
        _, b = _splitmix32(a ^ _rotl(hi, 13) ^ rlo)
        _, c = _splitmix32(b ^ _rotl(rhi, 7))
        return cls(c)

    def next_u32(self):
        s = self.s
        result = (_rotl((s[1] * 5) & M, 7) * 9) & M
        t = (s[1] << 9) & M
        s[2] ^= s[0]
        s[3] ^= s[1]
        s[1] ^= s[2]
        s[0] ^= s[3]
        s[2] ^= t
        s[3] = _rotl(s[3], 11)
        return result

    def below(self, n):
        return self.next_u32() % n

    def chance(self, num, den):
        return self.below(den) < num

    def pick(self, xs):
        return xs[self.below(len(xs))]
